#!/bin/bash
# gocorpus.sh : shim + rewriter vs the real Go runtime on a corpus of ordinary Go programs.
set -e
export GOFLAGS=-mod=mod GOPROXY=off GOSUMDB=off GOTOOLCHAIN=local
V=$(dirname $(realpath $0)); S=/dev/shm/gocorpus-$$; N=${1:-40}
rm -rf $S; mkdir -p $S/inst $S/nat
cp -r $V/engine/vs $S/vs
$V/bin/vinstr -typecheck-only vs vs=$V/engine/vs=$S/vs gocorpus=$V/engine/gocorpus=$S/inst
cp $V/engine/gocorpus/go.mod $S/inst/
(cd $S/inst && go build -tags verif -o $S/explore .)
cp $V/engine/gocorpus/progs.go $V/engine/gocorpus/main_native.go $S/nat/ && printf 'module gocorpus\n\ngo 1.21\n' > $S/nat/go.mod
(cd $S/nat && go build -o $S/native .)
GOMAXPROCS=1 $S/explore > $S/explored.json
python3 - $S $N <<'PY'
import json, subprocess, sys
S, N = sys.argv[1], int(sys.argv[2])
explored = json.load(open(S + "/explored.json"))
bad = 0; total = 0
for name, outs in explored.items():
    seen = set()
    for i in range(N):
        p = subprocess.run([S + "/native", name], stdout=subprocess.PIPE, stderr=subprocess.PIPE, text=True, env={"GOMAXPROCS": str(1 + i % 4)})
        if p.returncode == 0:
            k = p.stdout.strip()
        elif "all goroutines are asleep" in p.stderr:
            k = "deadlock"
        else:
            k = "crash:" + p.stderr[:80]
        seen.add(k); total += 1
    miss = [k for k in seen if k not in outs]
    print(f"{name:34s} explored={len(outs):3d} native-distinct={len(seen):2d} {'OK' if not miss else 'NATIVE OUTCOME NOT EXPLORED: ' + str(miss)}")
    bad += len(miss)
print(f"gocorpus: {len(explored)} programs, {total} native runs, {bad} native outcomes outside the explored sets")
sys.exit(2 if bad else 0)
PY
rc=$?; rm -rf $S; exit $rc
