package main

import (
	"fmt"
	"strings"
)

// Scenario catalogue (DESIGN.md 2.5). kind is "func" (Go-function bodies) or "cmd"
// (vcmd commands through the exec seam).

func srcItems(prefix string, n int) []string {
	r := []string{}
	for i := 0; i < n; i++ {
		r = append(r, fmt.Sprintf("%s%d.txt", prefix, i))
	}
	return r
}

func simpleProc(name, kind string) ProcSpec {
	return ProcSpec{Name: name, Kind: kind, Ins: []string{"in"}, Outs: []OutSpec{{Name: "out", Pattern: "{i:in}." + name}}}
}

func fe(from, fp, to, tp string) Edge { return Edge{From: from, FromPort: fp, To: to, ToPort: tp} }

// Params of a catalogue scenario.
type ScenParams struct {
	Graph string `json:"graph"`
	Items int    `json:"items"`
	Buf   int    `json:"buf"`
	Max   int    `json:"max"`
	Kind  string `json:"kind"`
	Cores []int  `json:"cores,omitempty"`
	Extra string `json:"extra,omitempty"`
	RevSrc bool  `json:"rev_src,omitempty"` // the source emits its files in REVERSE name order (arrival order differs from sorted order)
	AbsSrc bool  `json:"abs_src,omitempty"` // the source files are given with ABSOLUTE paths
	Cwd   string `json:"cwd,omitempty"` // filled in by the worker: the scratch directory of the executions
}

func (sp ScenParams) String() string {
	s := fmt.Sprintf("%s/items=%d/buf=%d/max=%d/%s", sp.Graph, sp.Items, sp.Buf, sp.Max, sp.Kind)
	if sp.AbsSrc {
		s += "/absolute-sources"
	}
	if sp.RevSrc {
		s += "/reverse-name-order"
	}
	if len(sp.Cores) > 0 {
		s += fmt.Sprintf("/cores=%v", sp.Cores)
	}
	if sp.Extra != "" {
		s += "/" + sp.Extra
	}
	return s
}

func catalog(p ScenParams) *WSpec {
	kind := p.Kind
	if kind == "" {
		kind = "func"
	}
	if p.Graph == "tasks" || p.Graph == "slots" || p.Graph == "tasks2wf" || p.Graph == "nested" {
		return directSpec(p)
	}
	w := &WSpec{Name: "w", MaxTasks: p.Max, Buf: p.Buf}
	src := ProcSpec{Name: "src", Kind: "src", Items: srcItems("in", p.Items)}
	switch p.Graph {
	case "g1": // a single port-less process
		w.Procs = []ProcSpec{{Name: "x", Kind: "portless"}}
	case "g2": // src -> P
		w.Procs = []ProcSpec{src, simpleProc("p", kind)}
		w.Edges = []Edge{fe("src", "out", "p", "in")}
	case "g3": // src -> P -> Q
		w.Procs = []ProcSpec{src, simpleProc("p", kind), simpleProc("q", kind)}
		w.Edges = []Edge{fe("src", "out", "p", "in"), fe("p", "out", "q", "in")}
	case "g4": // fan-out P -> {Q, R}
		w.Procs = []ProcSpec{src, simpleProc("p", kind), simpleProc("q", kind), simpleProc("r", kind)}
		w.Edges = []Edge{fe("src", "out", "p", "in"), fe("p", "out", "q", "in"), fe("p", "out", "r", "in")}
	case "g4b": // fan-out to THREE consumers: P -> {Q, R, S}
		w.Procs = []ProcSpec{src, simpleProc("p", kind), simpleProc("q", kind), simpleProc("r", kind), simpleProc("s", kind)}
		w.Edges = []Edge{fe("src", "out", "p", "in"), fe("p", "out", "q", "in"), fe("p", "out", "r", "in"), fe("p", "out", "s", "in")}
	case "g4s": // two processes whose names differ only in characters the sanitizer folds ("Wx", "wx"), fed by the same out-port
		a := ProcSpec{Name: "Wx", Kind: kind, Ins: []string{"in"}, Outs: []OutSpec{{Name: "out", Pattern: "{i:in}.wa"}}}
		b := ProcSpec{Name: "wx", Kind: kind, Ins: []string{"in"}, Outs: []OutSpec{{Name: "out", Pattern: "{i:in}.wb"}}}
		w.Procs = []ProcSpec{src, a, b}
		w.Edges = []Edge{fe("src", "out", "Wx", "in"), fe("src", "out", "wx", "in")}
	case "g5": // fan-in {src, src2} -> P.in
		src2 := ProcSpec{Name: "src2", Kind: "src", Items: srcItems("jn", 1)}
		w.Procs = []ProcSpec{src, src2, simpleProc("p", kind)}
		w.Edges = []Edge{fe("src", "out", "p", "in"), fe("src2", "out", "p", "in")}
	case "g5b": // fan-in of two processed branches {A, B} -> P.in
		src2 := ProcSpec{Name: "src2", Kind: "src", Items: srcItems("jn", p.Items)}
		w.Procs = []ProcSpec{src, src2, simpleProc("a", kind), simpleProc("b", kind), simpleProc("p", kind)}
		w.Edges = []Edge{fe("src", "out", "a", "in"), fe("src2", "out", "b", "in"), fe("a", "out", "p", "in"), fe("b", "out", "p", "in")}
	case "g6": // diamond with a two-in-port join
		j := ProcSpec{Name: "j", Kind: kind, Ins: []string{"a", "b"}, Outs: []OutSpec{{Name: "out", Pattern: "{i:a}.j"}}}
		w.Procs = []ProcSpec{src, simpleProc("p", kind), simpleProc("q", kind), simpleProc("r", kind), j}
		w.Edges = []Edge{fe("src", "out", "p", "in"), fe("p", "out", "q", "in"), fe("p", "out", "r", "in"), fe("q", "out", "j", "a"), fe("r", "out", "j", "b")}
	case "g6b": // two-in-port join fed by a processed branch and a source: pairing depends on emission order
		src2 := ProcSpec{Name: "src2", Kind: "src", Items: srcItems("jn", p.Items)}
		j := ProcSpec{Name: "j", Kind: kind, Ins: []string{"a", "b"}, Outs: []OutSpec{{Name: "out", Pattern: "{i:a}.j"}}}
		w.Procs = []ProcSpec{src, src2, simpleProc("p", kind), j}
		w.Edges = []Edge{fe("src", "out", "p", "in"), fe("p", "out", "j", "a"), fe("src2", "out", "j", "b")}
	case "gsplit1": // src (one file of 3 lines) -> FileSplitter(1 line per part) -> recorder
		spl := ProcSpec{Name: "split", Kind: "splitter", Ins: []string{"file"}}
		rec := ProcSpec{Name: "rec", Kind: "recorder", Ins: []string{"in"}}
		w.Procs = []ProcSpec{src, spl, rec}
		w.Edges = []Edge{fe("src", "out", "split", "file"), fe("split", "split_file", "rec", "in")}
		w.SourceContent = map[string]string{}
		for _, it := range src.Items {
			w.SourceContent[it] = "l1 of " + it + "\nl2\nl3\n"
		}
	case "gjoin2": // two joined in-ports of one task, each with its own sub-stream
		f := strings.SplitN(p.Extra, "|", 2) // "SEP|SEP2"
		j := ProcSpec{Name: "j", Kind: "joiner", JoinSep: f[0], JoinSep2: f[1]}
		src2 := ProcSpec{Name: "src2", Kind: "src", Items: srcItems("jn", p.Items)}
		sub := ProcSpec{Name: "sub", Kind: "substream", Ins: []string{"in"}}
		sub2 := ProcSpec{Name: "sub2", Kind: "substream", Ins: []string{"in"}}
		w.Procs = []ProcSpec{src, src2, sub, sub2, j}
		w.Edges = []Edge{fe("src", "out", "sub", "in"), fe("src2", "out", "sub2", "in"), fe("sub", "substream", "j", "x"), fe("sub2", "substream", "j", "y")}
		return w
	case "gjoin3": // a joined in-port AND an ordinary in-port on one task: src(k) -> sub -> j.x ; src2(1) -> j.hdr
		j := ProcSpec{Name: "j", Kind: "joiner", JoinSep: p.Extra, JoinHdr: true}
		src2 := ProcSpec{Name: "src2", Kind: "src", Items: srcItems("jn", 1)}
		sub := ProcSpec{Name: "sub", Kind: "substream", Ins: []string{"in"}}
		w.Procs = []ProcSpec{src, src2, sub, j}
		w.Edges = []Edge{fe("src", "out", "sub", "in"), fe("sub", "substream", "j", "x"), fe("src2", "out", "j", "hdr")}
		return w
	case "gsplit": // src -> FileSplitter -> {Q, R}: fan-out of IPs whose audit info is not loaded yet
		spl := ProcSpec{Name: "split", Kind: "splitter", Ins: []string{"file"}}
		w.Procs = []ProcSpec{src, spl, simpleProc("q", kind), simpleProc("r", kind)}
		w.Edges = []Edge{fe("src", "out", "split", "file"), fe("split", "split_file", "q", "in"), fe("split", "split_file", "r", "in")}
	case "gsplit14": // FileSplitter parts (IPs created before their files exist) fanned out to a tagging arm and a sibling: split -> {tg -> d, c}
		spl := ProcSpec{Name: "split", Kind: "splitter", Ins: []string{"file"}}
		tg := ProcSpec{Name: "tg", Kind: "tagger", TagKey: "k", Ins: []string{"in"}}
		w.Procs = []ProcSpec{src, spl, tg, simpleProc("d", kind), simpleProc("c", kind)}
		w.Edges = []Edge{fe("src", "out", "split", "file"), fe("split", "split_file", "tg", "in"), fe("split", "split_file", "c", "in"), fe("tg", "out", "d", "in")}
	case "g6c": // a two-in-port task whose streams have DIFFERENT lengths (src: n items, src2: n+1): the extra item forms no task
		src2 := ProcSpec{Name: "src2", Kind: "src", Items: srcItems("jn", p.Items+1)}
		j := ProcSpec{Name: "j", Kind: kind, Ins: []string{"x", "y"}, Outs: []OutSpec{{Name: "out", Pattern: "{i:x}.j"}}}
		w.Procs = []ProcSpec{src, src2, j}
		w.Edges = []Edge{fe("src", "out", "j", "x"), fe("src2", "out", "j", "y")}
	case "gjoin5": // BOTH outputs of one two-output task are members of one sub-stream: src -> p{o1,o2} -> sub -> j.x
		j := ProcSpec{Name: "j", Kind: "joiner", JoinSep: p.Extra}
		pp := ProcSpec{Name: "p", Kind: "func", Ins: []string{"in"}, Outs: []OutSpec{{Name: "o1", Pattern: "{i:in}.o1"}, {Name: "o2", Pattern: "{i:in}.o2"}}}
		sub := ProcSpec{Name: "sub", Kind: "substream", Ins: []string{"in"}}
		w.Procs = []ProcSpec{src, pp, sub, j}
		w.Edges = []Edge{fe("src", "out", "p", "in"), fe("p", "o1", "sub", "in"), fe("p", "o2", "sub", "in"), fe("sub", "substream", "j", "x")}
		return w
	case "gjoin": // src(k) -> StreamToSubStream -> {i:x|join:SEP}
		f := strings.SplitN(p.Extra, "|", 2) // "SEP|modifier"
		j := ProcSpec{Name: "j", Kind: "joiner", JoinSep: f[0]}
		if len(f) > 1 {
			j.JoinMod = f[1]
		}
		sub := ProcSpec{Name: "sub", Kind: "substream", Ins: []string{"in"}}
		w.Procs = []ProcSpec{src, sub, j}
		w.Edges = []Edge{fe("src", "out", "sub", "in"), fe("sub", "substream", "j", "x")}
		return w
	case "g7": // two-output task feeding two consumers
		pp := ProcSpec{Name: "p", Kind: kind, Ins: []string{"in"}, Outs: []OutSpec{{Name: "o1", Pattern: "{i:in}.o1"}, {Name: "o2", Pattern: "{i:in}.o2"}}}
		w.Procs = []ProcSpec{src, pp, simpleProc("q", kind), simpleProc("r", kind)}
		w.Edges = []Edge{fe("src", "out", "p", "in"), fe("p", "o1", "q", "in"), fe("p", "o2", "r", "in")}
	case "g7b": // two-output task, only o1 consumed (o2 drained by the sink): a history may hold o1 alone
		pp := ProcSpec{Name: "p", Kind: kind, Ins: []string{"in"}, Outs: []OutSpec{{Name: "o1", Pattern: "{i:in}.o1"}, {Name: "o2", Pattern: "{i:in}.o2"}}}
		w.Procs = []ProcSpec{src, pp, simpleProc("q", kind)}
		w.Edges = []Edge{fe("src", "out", "p", "in"), fe("p", "o1", "q", "in")}
		w.PartialUnits = []string{"o1"}
	case "g7d": // two-output task, both out-ports consumed by nobody (recorders are attached by the "recorder" extras)
		pp := ProcSpec{Name: "p", Kind: kind, Ins: []string{"in"}, Outs: []OutSpec{{Name: "o1", Pattern: "{i:in}.o1"}, {Name: "o2", Pattern: "{i:in}.o2"}}}
		w.Procs = []ProcSpec{src, pp}
		w.Edges = []Edge{fe("src", "out", "p", "in")}
	case "g7c": // two-output task upstream of the DRIVER: o1 -> last (no out-ports), o2 consumed by nobody (drained by the sink)
		pp := ProcSpec{Name: "p", Kind: kind, Ins: []string{"in"}, Outs: []OutSpec{{Name: "o1", Pattern: "{i:in}.o1"}, {Name: "o2", Pattern: "{i:in}.o2"}}}
		last := ProcSpec{Name: "last", Kind: kind, Ins: []string{"in"}}
		w.Procs = []ProcSpec{src, pp, last}
		w.Edges = []Edge{fe("src", "out", "p", "in"), fe("p", "o1", "last", "in")}
	case "g8": // parameter port (fed by FromStr) + file port
		pp := ProcSpec{Name: "p", Kind: kind, Ins: []string{"in"}, Params: []string{"a"}, Outs: []OutSpec{{Name: "out", Pattern: "{i:in}.{p:a}.p"}}}
		vals := []string{}
		for i := 0; i < p.Items; i++ {
			vals = append(vals, fmt.Sprintf("v%d", i))
		}
		pp.FromStr = map[string][]string{"a": vals}
		w.Procs = []ProcSpec{src, pp, simpleProc("q", kind)}
		w.Edges = []Edge{fe("src", "out", "p", "in"), fe("p", "out", "q", "in")}
	case "g8d": // two parameters (fed by FromStr) and the DEFAULT output name (no SetOut): in.p.a_<v>.b_<v>.out
		pp := ProcSpec{Name: "p", Kind: kind, Ins: []string{"in"}, Params: []string{"b", "a"}, Outs: []OutSpec{{Name: "out", Pattern: "default:out"}}}
		va, vb := []string{}, []string{}
		for i := 0; i < p.Items; i++ {
			va = append(va, fmt.Sprintf("x%d", i))
			vb = append(vb, fmt.Sprintf("y%d", i))
		}
		pp.FromStr = map[string][]string{"a": va, "b": vb}
		w.Procs = []ProcSpec{src, pp, simpleProc("q", kind)}
		w.Edges = []Edge{fe("src", "out", "p", "in"), fe("p", "out", "q", "in")}
	case "g8e": // ONE parameter port fed by a ParamSource process AND by literal values (FromStr): fan-in of parameter streams
		pp := ProcSpec{Name: "p", Kind: kind, Ins: []string{"in"}, Params: []string{"a"}, Outs: []OutSpec{{Name: "out", Pattern: "{i:in}.{p:a}.p"}}}
		pp.FromStr = map[string][]string{"a": {"v0"}}
		pp.FromStrLate = true
		ps := ProcSpec{Name: "ps", Kind: "psrc", Items: []string{"w0"}}
		src.Items = srcItems("in", 2)
		w.Procs = []ProcSpec{src, ps, pp, simpleProc("q", kind)}
		w.Edges = []Edge{fe("src", "out", "p", "in"), {From: "ps", FromPort: "out", To: "p", ToPort: "a", Param: true}, fe("p", "out", "q", "in")}
	case "g8f": // ONE parameter source feeds two processes (p and x): RunTo(p) must cut the connection to x
		mk := func(name string) ProcSpec {
			return ProcSpec{Name: name, Kind: kind, Ins: []string{"in"}, Params: []string{"a"}, Outs: []OutSpec{{Name: "out", Pattern: "{i:in}.{p:a}." + name}}}
		}
		vals := []string{}
		for i := 0; i < p.Items; i++ {
			vals = append(vals, fmt.Sprintf("v%d", i))
		}
		ps := ProcSpec{Name: "ps", Kind: "psrc", Items: vals}
		src2 := ProcSpec{Name: "src2", Kind: "src", Items: srcItems("jn", p.Items)}
		w.Procs = []ProcSpec{src, src2, ps, mk("p"), mk("x")}
		w.Edges = []Edge{fe("src", "out", "p", "in"), {From: "ps", FromPort: "out", To: "p", ToPort: "a", Param: true}, fe("src2", "out", "x", "in"), {From: "ps", FromPort: "out", To: "x", ToPort: "a", Param: true}}
	case "g8g": // a dead-end FILE out-port (p.out) and a dead-end PARAMETER out-port (ps.out): the sink drains both
		vals := []string{}
		for i := 0; i < p.Items; i++ {
			vals = append(vals, fmt.Sprintf("v%d", i))
		}
		ps := ProcSpec{Name: "ps", Kind: "psrc", Items: vals}
		w.Procs = []ProcSpec{src, simpleProc("p", kind), ps}
		w.Edges = []Edge{fe("src", "out", "p", "in")}
	case "g8h": // a parameter splitter whose second out-port nobody consumes (the sink drains it) while its first one feeds p
		pp := ProcSpec{Name: "p", Kind: kind, Ins: []string{"in"}, Params: []string{"a"}, Outs: []OutSpec{{Name: "out", Pattern: "{i:in}.{p:a}.p"}}}
		vals := []string{}
		for i := 0; i < p.Items; i++ {
			vals = append(vals, fmt.Sprintf("v%d", i))
		}
		ps := ProcSpec{Name: "ps", Kind: "psrc", Items: vals}
		spl := ProcSpec{Name: "sp", Kind: "psplit"}
		w.Procs = []ProcSpec{src, ps, spl, pp}
		w.Edges = []Edge{fe("src", "out", "p", "in"), {From: "ps", FromPort: "out", To: "sp", ToPort: "in", Param: true}, {From: "sp", FromPort: "out", To: "p", ToPort: "a", Param: true}}
	case "g8k": // g8h with a consumer that has NO out-ports (it is the workflow's driver, not the sink): the only dead end is a PARAMETER out-port
		pp := ProcSpec{Name: "p", Kind: kind, Ins: []string{"in"}, Params: []string{"a"}}
		vals := []string{}
		for i := 0; i < p.Items; i++ {
			vals = append(vals, fmt.Sprintf("v%d", i))
		}
		ps := ProcSpec{Name: "ps", Kind: "psrc", Items: vals}
		spl := ProcSpec{Name: "sp", Kind: "psplit"}
		w.Procs = []ProcSpec{src, ps, spl, pp}
		w.Edges = []Edge{fe("src", "out", "p", "in"), {From: "ps", FromPort: "out", To: "sp", ToPort: "in", Param: true}, {From: "sp", FromPort: "out", To: "p", ToPort: "a", Param: true}}
	case "g8i": // a process WITHOUT file in-ports whose parameter comes from a process: ps -> gen.a ; gen.out -> fin.in -> extra.in
		gen := ProcSpec{Name: "gen", Kind: kind, Params: []string{"a"}, Outs: []OutSpec{{Name: "out", Pattern: "{p:a}.gen"}}}
		vals := []string{}
		for i := 0; i < p.Items; i++ {
			vals = append(vals, fmt.Sprintf("v%d", i))
		}
		ps := ProcSpec{Name: "ps", Kind: "psrc", Items: vals}
		w.Procs = []ProcSpec{ps, gen, simpleProc("fin", kind), simpleProc("extra", kind)}
		w.Edges = []Edge{{From: "ps", FromPort: "out", To: "gen", ToPort: "a", Param: true}, fe("gen", "out", "fin", "in"), fe("fin", "out", "extra", "in")}
	case "g8j": // ONE parameter source feeds two processes that have NO file in-ports (gen, gen2): RunTo(gen) must cut gen2
		mk := func(name string) ProcSpec {
			return ProcSpec{Name: name, Kind: kind, Params: []string{"a"}, Outs: []OutSpec{{Name: "out", Pattern: "{p:a}." + name}}}
		}
		vals := []string{}
		for i := 0; i < p.Items; i++ {
			vals = append(vals, fmt.Sprintf("v%d", i))
		}
		ps := ProcSpec{Name: "ps", Kind: "psrc", Items: vals}
		w.Procs = []ProcSpec{ps, mk("gen"), mk("gen2")}
		w.Edges = []Edge{{From: "ps", FromPort: "out", To: "gen", ToPort: "a", Param: true}, {From: "ps", FromPort: "out", To: "gen2", ToPort: "a", Param: true}}
	case "g8b": // parameter port fed by a ParamSource process
		pp := ProcSpec{Name: "p", Kind: kind, Ins: []string{"in"}, Params: []string{"a"}, Outs: []OutSpec{{Name: "out", Pattern: "{i:in}.{p:a}.p"}}}
		vals := []string{}
		for i := 0; i < p.Items; i++ {
			vals = append(vals, fmt.Sprintf("v%d", i))
		}
		ps := ProcSpec{Name: "ps", Kind: "psrc", Items: vals}
		w.Procs = []ProcSpec{src, ps, pp}
		w.Edges = []Edge{fe("src", "out", "p", "in"), {From: "ps", FromPort: "out", To: "p", ToPort: "a", Param: true}}
	case "g8c": // parameter port fed through a parameter-forwarding process: ps -> pp -> p.a
		pp := ProcSpec{Name: "p", Kind: kind, Ins: []string{"in"}, Params: []string{"a"}, Outs: []OutSpec{{Name: "out", Pattern: "{i:in}.{p:a}.p"}}}
		vals := []string{}
		for i := 0; i < p.Items; i++ {
			vals = append(vals, fmt.Sprintf("v%d", i))
		}
		ps := ProcSpec{Name: "ps", Kind: "psrc", Items: vals}
		fw := ProcSpec{Name: "pp", Kind: "ppass", Params: []string{"in"}}
		w.Procs = []ProcSpec{src, ps, fw, pp, simpleProc("q", kind)}
		w.Edges = []Edge{fe("src", "out", "p", "in"), {From: "ps", FromPort: "out", To: "pp", ToPort: "in", Param: true}, {From: "pp", FromPort: "out", To: "p", ToPort: "a", Param: true}, fe("p", "out", "q", "in")}
	case "g9": // two independent branches ending in the sink
		src2 := ProcSpec{Name: "src2", Kind: "src", Items: srcItems("jn", p.Items)}
		w.Procs = []ProcSpec{src, src2, simpleProc("p", kind), simpleProc("q", kind)}
		w.Edges = []Edge{fe("src", "out", "p", "in"), fe("src2", "out", "q", "in")}
	case "g10": // independent branch to the sink + a port-less process
		w.Procs = []ProcSpec{src, simpleProc("p", kind), {Name: "x", Kind: "portless"}}
		w.Edges = []Edge{fe("src", "out", "p", "in")}
	case "g10b": // fan-out to a leaf that ends in the sink and to a process without out-ports (the driver)
		last := ProcSpec{Name: "last", Kind: kind, Ins: []string{"in"}}
		w.Procs = []ProcSpec{src, simpleProc("p", kind), simpleProc("q", kind), last}
		w.Edges = []Edge{fe("src", "out", "p", "in"), fe("p", "out", "q", "in"), fe("p", "out", "last", "in")}
	case "g11": // chain ending in a process without out-ports
		last := ProcSpec{Name: "last", Kind: kind, Ins: []string{"in"}}
		w.Procs = []ProcSpec{src, simpleProc("p", kind), last}
		w.Edges = []Edge{fe("src", "out", "p", "in"), fe("p", "out", "last", "in")}
	case "g12": // stream longer than the buffer through two levels (issue #81 shape)
		w.Procs = []ProcSpec{src, simpleProc("p", kind), simpleProc("q", kind)}
		w.Edges = []Edge{fe("src", "out", "p", "in"), fe("p", "out", "q", "in")}
	case "g13": // mixed CoresPerTask: src -> {A(c0), B(c1), C(c2)}
		w.Procs = []ProcSpec{src}
		for i, c := range p.Cores {
			name := string(rune('a' + i))
			ps := simpleProc(name, kind)
			ps.Cores = c
			ps.NoRead = true
			w.Procs = append(w.Procs, ps)
			w.Edges = append(w.Edges, fe("src", "out", name, "in"))
		}
	case "g14": // tagging on one arm of a fan-out
		tg := ProcSpec{Name: "tg", Kind: "tagger", TagKey: "k", Ins: []string{"in"}}
		w.Procs = []ProcSpec{src, simpleProc("p", kind), tg, simpleProc("c", kind), simpleProc("d", kind)}
		w.Edges = []Edge{fe("src", "out", "p", "in"), fe("p", "out", "tg", "in"), fe("p", "out", "c", "in"), fe("tg", "out", "d", "in")}
	case "g14b": // two tagging steps down a chain: src -> p -> tg1 -> d -> tg2 -> e
		tg1 := ProcSpec{Name: "tg", Kind: "tagger", TagKey: "k", Ins: []string{"in"}}
		tg2 := ProcSpec{Name: "tg2", Kind: "tagger", TagKey: "k2", Ins: []string{"in"}}
		w.Procs = []ProcSpec{src, simpleProc("p", kind), tg1, simpleProc("d", kind), tg2, simpleProc("e", kind)}
		w.Edges = []Edge{fe("src", "out", "p", "in"), fe("p", "out", "tg", "in"), fe("tg", "out", "d", "in"), fe("d", "out", "tg2", "in"), fe("tg2", "out", "e", "in")}
	case "g14c": // the smallest fan-out with a tagging arm: src -> p -> {tg -> sink, c}
		tg := ProcSpec{Name: "tg", Kind: "tagger", TagKey: "k", Ins: []string{"in"}}
		w.Procs = []ProcSpec{src, simpleProc("p", kind), tg, simpleProc("c", kind)}
		w.Edges = []Edge{fe("src", "out", "p", "in"), fe("p", "out", "tg", "in"), fe("p", "out", "c", "in")}
	case "g14d": // two tagging steps DIRECTLY in series: src -> p -> tg -> tg2 -> d
		tg1 := ProcSpec{Name: "tg", Kind: "tagger", TagKey: "k", Ins: []string{"in"}}
		tg2 := ProcSpec{Name: "tg2", Kind: "tagger", TagKey: "k2", Ins: []string{"in"}}
		w.Procs = []ProcSpec{src, simpleProc("p", kind), tg1, tg2, simpleProc("d", kind)}
		w.Edges = []Edge{fe("src", "out", "p", "in"), fe("p", "out", "tg", "in"), fe("tg", "out", "tg2", "in"), fe("tg2", "out", "d", "in")}
	case "g14e": // tagging BEFORE a fan-out, and again further down one arm: src -> p -> tg -> {c -> tg2 -> e, d}
		tg1 := ProcSpec{Name: "tg", Kind: "tagger", TagKey: "k", Ins: []string{"in"}}
		tg2 := ProcSpec{Name: "tg2", Kind: "tagger", TagKey: "k2", Ins: []string{"in"}}
		w.Procs = []ProcSpec{src, simpleProc("p", kind), tg1, simpleProc("c", kind), tg2, simpleProc("e", kind), simpleProc("d", kind)}
		w.Edges = []Edge{fe("src", "out", "p", "in"), fe("p", "out", "tg", "in"), fe("tg", "out", "c", "in"), fe("tg", "out", "d", "in"), fe("c", "out", "tg2", "in"), fe("tg2", "out", "e", "in")}
	case "g14f": // a tag travels two task steps beyond the tagging component: src -> p -> tg -> d -> e (e reads it from d's record)
		tg := ProcSpec{Name: "tg", Kind: "tagger", TagKey: "k", Ins: []string{"in"}}
		w.Procs = []ProcSpec{src, simpleProc("p", kind), tg, simpleProc("d", kind), simpleProc("e", kind)}
		w.Edges = []Edge{fe("src", "out", "p", "in"), fe("p", "out", "tg", "in"), fe("tg", "out", "d", "in"), fe("d", "out", "e", "in")}
	case "g14a": // tagging alone in a chain
		tg := ProcSpec{Name: "tg", Kind: "tagger", TagKey: "k", Ins: []string{"in"}}
		w.Procs = []ProcSpec{src, simpleProc("p", kind), tg, simpleProc("d", kind)}
		w.Edges = []Edge{fe("src", "out", "p", "in"), fe("p", "out", "tg", "in"), fe("tg", "out", "d", "in")}
	default:
		panic("unknown graph " + p.Graph)
	}
	if len(p.Cores) > 0 && p.Graph != "g13" {
		k := 0
		for i := range w.Procs {
			if w.Procs[i].Kind == "func" || w.Procs[i].Kind == "cmd" {
				w.Procs[i].Cores = p.Cores[k%len(p.Cores)]
				k++
			}
		}
	}
	switch p.Extra {
	case "subdir": // outputs of p inside not-yet-existing sub-directories
		if ps := w.proc("p"); ps != nil {
			for i := range ps.Outs {
				ps.Outs[i].Pattern = "sub/dir/{i:in|basename}." + ps.Outs[i].Name
			}
		}
	case "absout": // outputs of p declared with an ABSOLUTE path (destination directory existing)
		if ps := w.proc("p"); ps != nil {
			for i := range ps.Outs {
				ps.Outs[i].Pattern = p.Cwd + "/abs/{i:in|basename}." + ps.Outs[i].Name
			}
			w.MkDirs = append(w.MkDirs, "abs")
		}
	case "absout-mod": // absolute output path AND the command names it through a modifier chain
		if ps := w.proc("p"); ps != nil {
			for i := range ps.Outs {
				ps.Outs[i].Pattern = p.Cwd + "/abs/{i:in|basename}." + ps.Outs[i].Name
				ps.Outs[i].PhSuffix = "." + ps.Outs[i].Name
			}
			w.MkDirs = append(w.MkDirs, "abs")
		}
	case "submod": // output in a new sub-directory, named in the command through a modifier chain
		if ps := w.proc("p"); ps != nil {
			for i := range ps.Outs {
				ps.Outs[i].Pattern = "sub/dir/{i:in|basename}." + ps.Outs[i].Name
				ps.Outs[i].PhSuffix = "." + ps.Outs[i].Name
			}
		}
	case "writeidiom": // the documented Go-function idiom: task.OutIP(..).Write(..)
		if ps := w.proc("p"); ps != nil {
			ps.Kind = "func"
			ps.WriteIdiom = true
		}
	case "defaultout-e": // process e has NO SetOut: its output name is the default one (which contains the task's tags)
		if ps := w.proc("e"); ps != nil {
			for i := range ps.Outs {
				ps.Outs[i].Pattern = "default:" + ps.Outs[i].Name
			}
		}
	case "linkout": // p's command makes its output a symbolic link to a file it wrote elsewhere (absolute target)
		if ps := w.proc("p"); ps != nil {
			ps.LinkOut = true
		}
	case "appendout": // p's command appends to its output (>>): it relies on starting in an EMPTY working directory
		if ps := w.proc("p"); ps != nil {
			ps.Kind = "cmd"
			ps.AppendOut = true
		}
	case "dirout": // the output of p is a DIRECTORY with two files (mkdir {o:out} && write into it)
		if ps := w.proc("p"); ps != nil {
			ps.Kind = "cmd"
			ps.DirOut = true
		}
	case "samename": // the source files have the SAME base name in different directories: s0/in.txt, s1/in.txt, ...
		for i := range w.Procs {
			if w.Procs[i].Kind == "src" {
				for k := range w.Procs[i].Items {
					w.Procs[i].Items[k] = fmt.Sprintf("s%d/in.txt", k)
				}
			}
		}
	case "setout-only": // p's out-ports are declared with SetOut alone; its command builds the file name from its input
		if ps := w.proc("p"); ps != nil {
			ps.OutsNotInCmd = true
		}
	case "emptytag": // every tagging component also attaches a tag whose value is the empty string
		for i := range w.Procs {
			if w.Procs[i].Kind == "tagger" {
				w.Procs[i].EmptyTag = "e"
			}
		}
	case "prepend": // Process.Prepend: a launcher in front of every command of p
		if ps := w.proc("p"); ps != nil {
			ps.Prepend = "env"
		}
	case "escparam": // a parameter value that contains a literal backslash escape sequence (only used in the command)
		if ps := w.proc("p"); ps != nil {
			ps.FromStr["a"][len(ps.FromStr["a"])-1] = `b\u0026c\u003cd`
			for i := range ps.Outs {
				ps.Outs[i].Pattern = "{i:in}." + ps.Outs[i].Name
			}
		}
	case "emptyparam-setout": // an empty string is a legal parameter value when it is only used in the path pattern
		if ps := w.proc("p"); ps != nil {
			ps.Kind = "func"
			ps.ParamsNotInCmd = true
			ps.FromStr["a"][1] = ""
		}
	case "emptyparam": // a task that cannot be formed: empty parameter value
		if ps := w.proc("p"); ps != nil {
			ps.FromStr["a"][len(ps.FromStr["a"])-1] = ""
		}
	case "badpath-exists": // ... invalid character in the output path AND a file of exactly that name is already there
		if ps := w.proc("p"); ps != nil {
			ps.FromStr["a"][len(ps.FromStr["a"])-1] = "b+c"
			w.PreFiles = map[string]string{fmt.Sprintf("in%d.txt.b+c.p", p.Items-1): "left by somebody"}
		}
		if qs := w.proc("q"); qs != nil {
			// the dependant's own output name does not inherit the invalid character
			qs.Outs[0].Pattern = "{i:in|%.b+c.p}.q"
		}
	case "badpath", "badpath-nonascii-letter", "badpath-nonascii-digit", "badpath-glob", "badpath-dollar": // ... invalid character in the output path
		if ps := w.proc("p"); ps != nil {
			ps.FromStr["a"][len(ps.FromStr["a"])-1] = map[string]string{"badpath": "b c", "badpath-nonascii-letter": "r\u00e9s", "badpath-nonascii-digit": "n\u0663", "badpath-glob": "b*", "badpath-dollar": "b$c"}[p.Extra]
		}
	case "notdir": // ... an output inside "blk/", where blk is an existing regular FILE (stat of the output answers ENOTDIR)
		if ps := w.proc("p"); ps != nil {
			for i := range ps.Outs {
				ps.Outs[i].Pattern = "blk/{i:in|basename}." + ps.Outs[i].Name
			}
			w.PreFiles = map[string]string{"blk": "a regular file"}
		}
	case "longname": // ... an output whose file name is longer than the file system allows (stat answers ENAMETOOLONG)
		if ps := w.proc("p"); ps != nil {
			for i := range ps.Outs {
				ps.Outs[i].Pattern = "{i:in|basename}." + strings.Repeat("x", 260) + "." + ps.Outs[i].Name
			}
		}
	case "missingtag": // ... tag placeholder without a tag
		if ps := w.proc("p"); ps != nil {
			ps.CmdSuffix = " -- x={t:nosuchtag}"
		}
	case "missingtag-setout": // ... a tag the incoming IP does not carry, named in the output-path pattern
		if ps := w.proc("p"); ps != nil {
			for i := range ps.Outs {
				ps.Outs[i].Pattern = "{i:in}.{t:nosuchtag}." + ps.Outs[i].Name
			}
		}
	case "missingparam-setout": // ... a parameter the process does not have, named in the output-path pattern
		if ps := w.proc("p"); ps != nil {
			for i := range ps.Outs {
				ps.Outs[i].Pattern = "{i:in}.{p:nosuchparam}." + ps.Outs[i].Name
			}
		}
	case "barrier":
		for i := range w.Procs {
			if w.Procs[i].Kind == "func" || w.Procs[i].Kind == "cmd" {
				w.Procs[i].Barrier = "b"
			}
		}
	case "barrier-first-last": // the first and the last task of p rendezvous; the ones in between just run
		if ps := w.proc("p"); ps != nil {
			ps.Barrier = "b"
			ps.BarrierOnly = []string{"in0.txt", fmt.Sprintf("in%d.txt", p.Items-1)}
		}
	case "barrier-skip": // p's task for in1 (holding a slot) rendezvous with q's task for the output of p's SKIPPED task for in0
		if ps := w.proc("p"); ps != nil {
			ps.Barrier = "b"
			ps.BarrierOnly = []string{"in=in1.txt"}
		}
		if qs := w.proc("q"); qs != nil {
			qs.Barrier = "b"
			qs.BarrierOnly = []string{"in=in0.txt.p"}
			qs.ZeroCores = true
		}
	case "recorder", "recorder2", "recorder-bfl", "recorder-b3l":
		if p.Extra == "recorder-b3l" {
			// the THIRD task and the last one rendezvous: two items are forwarded, then a long backlog of started
			// tasks queues up behind the third (a queue that grows while its head is not at slot 0)
			if ps := w.proc("p"); ps != nil {
				ps.Barrier = "b"
				ps.BarrierOnly = []string{"in2.txt", fmt.Sprintf("in%d.txt", p.Items-1)}
				ps.BarrierEnd = []string{"in2.txt"}
			}
		}
		if p.Extra == "recorder-bfl" {
			// ... and the first and the last task of p rendezvous (the ones in between finish while the head task runs)
			if ps := w.proc("p"); ps != nil {
				ps.Barrier = "b"
				ps.BarrierOnly = []string{"in0.txt", fmt.Sprintf("in%d.txt", p.Items-1)}
				ps.BarrierEnd = []string{"in0.txt"} // the head task ends only when the last one has started
			}
		}
		// an ordinary custom process reading every out-port nobody consumes (recorder2: TWO of them on
		// each such port - a fan-out whose receivers must each see the items in order)
		n := len(w.Procs)
		for i := 0; i < n; i++ {
			ps := w.Procs[i]
			if ps.Kind != "func" && ps.Kind != "cmd" {
				continue
			}
			for _, o := range ps.Outs {
				used := false
				for _, e := range w.Edges {
					if e.From == ps.Name && e.FromPort == o.Name {
						used = true
					}
				}
				if !used {
					rn := "rec_" + ps.Name + "_" + o.Name
					w.Procs = append(w.Procs, ProcSpec{Name: rn, Kind: "recorder", Ins: []string{"in"}})
					w.Edges = append(w.Edges, fe(ps.Name, o.Name, rn, "in"))
					if p.Extra == "recorder2" {
						w.Procs = append(w.Procs, ProcSpec{Name: rn + "_b", Kind: "recorder", Ins: []string{"in"}})
						w.Edges = append(w.Edges, fe(ps.Name, o.Name, rn+"_b", "in"))
					}
				}
			}
		}
	}
	return w
}
