//go:build verif

package main

import (
	"fmt"
	"os"
	"sort"
	"strconv"
	"strings"

	sp "github.com/scipipe/scipipe"
	"vs"
)

// C15: placeholders and path modifiers expand as documented.
//
// Exhaustive enumeration of a finite pattern grammar x value alphabet (no sampling). Every
// case builds a Process through the public API (Workflow.NewProc, Process.SetOut) and a Task
// through the public constructor NewTask, exactly like Process.createTasks does, inside one
// vs.Run, and compares Task.Command / the out-IP's path with a reference model written from
// docs/writing_workflows.md + README.md.
//
// Parts (job.Args["part"]):
//   patterns : levels L1 (one placeholder, long modifier chains, every value, repeated),
//              L2 (all ordered pairs of items x all value combinations), L3 (all ordered
//              triples of items x a fixed list of value assignments), MV (missing values);
//              both contexts ("cmd" = command pattern, "setout" = SetOut path pattern).
//              Sharded by a hash of the case key (args shard / nshards).
//   defname  : the default path function: determinism under every map-iteration order,
//              sensitivity to every single component, README form.

func init() { specialJobs["c15"] = runC15 }

// ------------------------------------------------------------------ grammar

type c15Item struct {
	kind string // "lit" | "i" | "o" | "p" | "t"
	name string // port / parameter / tag name; for "lit" the literal text
	mods []string
}

func (it c15Item) text() string {
	if it.kind == "lit" {
		return it.name
	}
	s := "{" + it.kind + ":" + it.name
	for _, m := range it.mods {
		s += "|" + m
	}
	return s + "}"
}

type c15Ph struct{ kind, name string }

type c15Universe struct {
	mods1   []string // modifier alphabet of level 1
	len1    int      // max chain length, level 1
	mods23  []string // modifier alphabet of levels 2, 3 and MV
	len2    int      // max chain length, level 2 (primary names)
	len3    int      // max chain length, level 3 (primary names)
	lenSec  int      // max chain length of the secondary names (u, q) at levels 2, 3
	lenMV   int
	vals    map[string][]string
	lits    map[string][]string // context -> literal items
	envs    []map[string]string // level 3 value assignments
	primary map[string][]c15Ph  // context -> placeholders with full chains
	second  map[string][]c15Ph  // context -> second port of the same kind
}

func c15NewUniverse(thorough bool) *c15Universe {
	u := &c15Universe{
		mods1: []string{"basename", "dirname", "%.txt", "%_s", "s/a/b/"}, len1: 2,
		mods23: []string{"basename", "dirname", "%.txt", "%_s", "s/a/b/"}, len2: 1, len3: 1, lenSec: 1, lenMV: 1,
		vals: map[string][]string{
			"x": {"d/e.txt", "a.b/c", "x/d/e_s", "e.txt", "d/xt.txt", "a/a.txt"}, // "xt.txt": the stem ends in characters of the suffix; "a/a.txt": the search string occurs twice
			"u": {"f/g.txt", "a_s"},
			"z": {"v", "a_s", "d/e.txt", "ss_s", "aa"},
			"q": {"7", "a.txt"},
			"w": {"g", "a.txt", "aa"},
			"y": {"o.txt", "d/a_s"},
		},
		lits: map[string][]string{"cmd": {"L"}, "setout": {"_L"}},
		envs: []map[string]string{
			{"x": "d/e.txt", "u": "a_s", "z": "a_s", "q": "7", "w": "a.txt", "y": "d/a_s"},
			{"x": "a.b/c", "u": "f/g.txt", "z": "d/e.txt", "q": "a.txt", "w": "g", "y": "o.txt"},
		},
		primary: map[string][]c15Ph{
			"cmd":    {{"i", "x"}, {"o", "y"}, {"p", "z"}, {"t", "w"}},
			"setout": {{"i", "x"}, {"p", "z"}, {"t", "w"}},
		},
		second: map[string][]c15Ph{
			"cmd":    {{"i", "u"}, {"p", "q"}},
			"setout": {{"i", "u"}, {"p", "q"}},
		},
	}
	if thorough {
		u.mods1 = append(u.mods1, "s/.txt//", "%t")
		u.len1 = 3
		u.len2 = 2
		u.len3 = 2
		u.lenMV = 2
		u.vals["x"] = append(u.vals["x"], "/r/a.txt", "d/e.txt.gz", "../k/a.txt", "d/.txt", "na_s", ".txt")
		u.vals["z"] = append(u.vals["z"], "1.5", "_s", ".txt")
		u.vals["w"] = append(u.vals["w"], "x/a_s")
		u.vals["y"] = append(u.vals["y"], "r/d/o.txt", "a.txt")
		u.lits["cmd"] = append(u.lits["cmd"], "/n")
		u.lits["setout"] = append(u.lits["setout"], "/n", ".")
		u.envs = append(u.envs, map[string]string{"x": "x/d/e_s", "u": "f/g.txt", "z": "v", "q": "a.txt", "w": "x/a_s", "y": "r/d/o.txt"})
	}
	return u
}

func c15Chains(mods []string, maxLen int) [][]string {
	out := [][]string{{}}
	last := [][]string{{}}
	for l := 1; l <= maxLen; l++ {
		next := [][]string{}
		for _, c := range last {
			for _, m := range mods {
				nc := append(append([]string{}, c...), m)
				next = append(next, nc)
			}
		}
		out = append(out, next...)
		last = next
	}
	return out
}

func (u *c15Universe) items(ctx string, lenPrimary int) []c15Item {
	its := []c15Item{}
	for _, l := range u.lits[ctx] {
		its = append(its, c15Item{kind: "lit", name: l})
	}
	for _, ph := range u.primary[ctx] {
		for _, c := range c15Chains(u.mods23, lenPrimary) {
			its = append(its, c15Item{kind: ph.kind, name: ph.name, mods: c})
		}
	}
	for _, ph := range u.second[ctx] {
		for _, c := range c15Chains(u.mods23, u.lenSec) {
			its = append(its, c15Item{kind: ph.kind, name: ph.name, mods: c})
		}
	}
	return its
}

func c15Sep(ctx string) string {
	if ctx == "cmd" {
		return " "
	}
	return ""
}

func c15Pattern(ctx string, items []c15Item) string {
	p := make([]string, len(items))
	for i, it := range items {
		p[i] = it.text()
	}
	return strings.Join(p, c15Sep(ctx))
}

// names used by the placeholders of a pattern, sorted, without duplicates
func c15Names(items []c15Item) []string {
	seen := map[string]bool{}
	ns := []string{}
	for _, it := range items {
		if it.kind != "lit" && !seen[it.name] {
			seen[it.name] = true
			ns = append(ns, it.name)
		}
	}
	sort.Strings(ns)
	return ns
}

// ------------------------------------------------------------------ reference model
//
// Written from docs/writing_workflows.md ("Available path modifiers"):
//   basename        removes all folders from the path, leaving only the file name
//   dirname         removes the ending file name part, leaving only the folder path
//   %<string>       removes <string> from the END of the path
//   s/<a>/<b>/      simple search and replace of <a> by <b>
// applied left to right. Deliberately silent (the case is then not judged) where the
// documentation is: <string> equal to the whole value,
// dirname of a file directly under "/". A value without any folder given to dirname: the
// documented result "only the folder path" is the empty path - both spellings "" and "."
// are accepted.

type c15Exp struct {
	accepted []string // acceptable results; nil = not judged
	silent   string   // why not judged
	defect   string   // the result if dirname leaves a folder-less value unchanged (known finding)
	usedDef  bool     // the derivation went through dirname of a folder-less value
	// emptyPath: documented result is a file path that is empty (an in-path in a command, the
	// whole SetOut path). Substituting it or refusing it (any stop) are both accepted.
	emptyPath bool
}

func c15RefMods(v string, mods []string) c15Exp {
	cur := []string{v}
	def := v
	used := false
	step := func(c string, m string, defectSemantics bool) (string, string, string) {
		// returns result, alternative result ("" = none, "\x00" marks none), silent reason
		switch {
		case m == "basename":
			if i := strings.LastIndex(c, "/"); i >= 0 {
				return c[i+1:], "\x00", ""
			}
			return c, "\x00", ""
		case m == "dirname":
			i := strings.LastIndex(c, "/")
			if i > 0 {
				return c[:i], "\x00", ""
			}
			if i == 0 {
				return "", "\x00", "dirname of a file directly under /"
			}
			if defectSemantics {
				return c, "\x00", ""
			}
			return "", ".", ""
		case strings.HasPrefix(m, "%"):
			suf := m[1:]
			if c == suf {
				return "", "\x00", "suffix equal to the whole value"
			}
			if strings.HasSuffix(c, suf) {
				return c[:len(c)-len(suf)], "\x00", ""
			}
			return c, "\x00", ""
		case strings.HasPrefix(m, "s/"):
			f := strings.Split(m, "/") // s, a, b, ""
			a, b := f[1], f[2]
			// the notation is sed's substitute command without the g flag: where <a> occurs
			// more than once the FIRST occurrence is the one replaced
			if i := strings.Index(c, a); i >= 0 {
				return c[:i] + b + c[i+len(a):], "\x00", ""
			}
			return c, "\x00", ""
		}
		return "", "\x00", "modifier outside the documented set"
	}
	for _, m := range mods {
		next := []string{}
		for _, c := range cur {
			if m == "dirname" && !strings.Contains(c, "/") {
				used = true
			}
			r, alt, silent := step(c, m, false)
			if silent != "" {
				return c15Exp{silent: silent}
			}
			next = append(next, r)
			if alt != "\x00" {
				next = append(next, alt)
			}
		}
		cur = c15Uniq(next)
		d, _, silent := step(def, m, true)
		if silent != "" {
			// the known-defect derivation leaves the documented domain: no defect variant
			def = "\x00"
		} else if def != "\x00" {
			def = d
		}
	}
	return c15Exp{accepted: cur, defect: def, usedDef: used}
}

func c15Uniq(s []string) []string {
	out := []string{}
	for _, x := range s {
		dup := false
		for _, y := range out {
			if x == y {
				dup = true
			}
		}
		if !dup {
			out = append(out, x)
		}
	}
	return out
}

// c15ExpandItem: what one item must be replaced by, in a command ("cmd") or in a SetOut
// pattern ("setout"). In a command an in-path is given as seen from the task's execution
// directory, a direct sub-directory of the working directory: "../" + value for relative
// values, the value itself for absolute ones; a chain that contains basename yields a bare
// file name (pinned by TestFormatCommand; the resolution itself is property C13's subject).
// Out-paths in commands: only relative values without ".." are enumerated, for which the
// path inside the execution directory is the path itself.
func c15ExpandItem(ctx string, it c15Item, env map[string]string) c15Exp {
	if it.kind == "lit" {
		return c15Exp{accepted: []string{it.name}, defect: it.name}
	}
	e := c15RefMods(env[it.name], it.mods)
	if e.accepted == nil {
		return e
	}
	if ctx == "cmd" && it.kind == "i" {
		hasBase := false
		for _, m := range it.mods {
			if m == "basename" {
				hasBase = true
			}
		}
		fix := func(m string) string {
			if hasBase || strings.HasPrefix(m, "/") {
				return m
			}
			return "../" + m
		}
		acc := []string{}
		for _, a := range e.accepted {
			acc = append(acc, fix(a))
			if a == "" {
				e.emptyPath = true
				if !hasBase {
					acc = append(acc, "..") // the working directory seen from the execution directory, third spelling
				}
			}
		}
		e.accepted = acc
		if e.defect != "\x00" {
			e.defect = fix(e.defect)
		}
	}
	return e
}

func c15Expected(ctx string, items []c15Item, env map[string]string) c15Exp {
	acc := []string{""}
	def := ""
	used := false
	empty := false
	sep := c15Sep(ctx)
	for i, it := range items {
		e := c15ExpandItem(ctx, it, env)
		if e.accepted == nil {
			return e
		}
		s := ""
		if i > 0 {
			s = sep
		}
		next := []string{}
		for _, a := range acc {
			for _, b := range e.accepted {
				next = append(next, a+s+b)
			}
		}
		acc = next
		if e.defect == "\x00" || def == "\x00" {
			def = "\x00"
		} else {
			def += s + e.defect
		}
		used = used || e.usedDef
		empty = empty || e.emptyPath
	}
	if ctx == "setout" {
		for _, a := range acc {
			if a == "" {
				empty = true
			}
		}
	}
	return c15Exp{accepted: c15Uniq(acc), defect: def, usedDef: used, emptyPath: empty}
}

// trivial: the expected result is what plain substitution without any modifier gives
func c15ModsEffective(ctx string, items []c15Item, env map[string]string, exp c15Exp) bool {
	plain := make([]c15Item, len(items))
	for i, it := range items {
		plain[i] = c15Item{kind: it.kind, name: it.name}
	}
	p := c15Expected(ctx, plain, env)
	return len(exp.accepted) != 1 || len(p.accepted) != 1 || exp.accepted[0] != p.accepted[0]
}

// ------------------------------------------------------------------ running one case on scipipe

type c15Runner struct {
	wf     *sp.Workflow
	nProc  int
	gotCmd string
	gotOut map[string]string
}

// run builds process + task for one case. present: names that have a value (a name that is
// missing from present is a missing value; a name with value "" is an empty value).
func (r *c15Runner) run(ctx string, pattern string, items []c15Item, present map[string]string) (outcome string) {
	r.gotCmd = ""
	r.gotOut = map[string]string{}
	if r.wf != nil {
		for _, n := range []string{"c15p"} {
			delete(r.wf.Procs(), n)
		}
	}
	errLog.Reset()
	s := vs.Run(&vs.Prefix{}, func() {
		if r.wf == nil {
			r.wf = sp.NewWorkflowCustomLogFile("c15wf", 4, "/dev/null")
		}
		var p *sp.Process
		if ctx == "cmd" {
			p = r.wf.NewProc("c15p", pattern)
			for _, it := range items {
				if it.kind == "o" {
					p.SetOut(it.name, present[it.name])
				}
			}
		} else {
			p = r.wf.NewProc("c15p", "# {o:y}")
			p.SetOut("y", pattern)
		}
		inIPs := map[string]*sp.FileIP{}
		params := map[string]string{}
		tags := map[string]string{}
		for _, it := range items {
			v, ok := present[it.name]
			if !ok {
				continue
			}
			switch it.kind {
			case "i":
				if _, done := inIPs[it.name]; !done {
					ip, err := sp.NewFileIP(v)
					if err != nil {
						panic("c15 harness: invalid in-path " + v)
					}
					inIPs[it.name] = ip
				}
			case "p":
				params[it.name] = v
			case "t":
				tags[it.name] = v
			}
		}
		t := sp.NewTask(r.wf, p, p.Name(), p.CommandPattern, inIPs, p.PathFuncs, p.PortInfo, params, tags, p.Prepend, nil, 1)
		r.gotCmd = t.Command
		for n, ip := range t.OutIPs {
			r.gotOut[n] = ip.Path()
		}
	})
	return s.Outcome
}

// ------------------------------------------------------------------ the job

type c15Job struct {
	job      *Job
	res      *Result
	u        *c15Universe
	shard    uint64
	nshards  uint64
	r        *c15Runner
	seen     map[uint64]struct{}
	perClass map[string]int
	counts   map[string]int
	agg      map[string]*c15Agg
	execs    int
}

func c15Hash(s string) uint64 {
	var h uint64 = 14695981039346656037
	for i := 0; i < len(s); i++ {
		h ^= uint64(s[i])
		h *= 1099511628211
	}
	// finalise (fnv alone distributes the low bits of similar strings poorly)
	h ^= h >> 33
	h *= 0xff51afd7ed558ccd
	h ^= h >> 33
	return h
}

// aggregated classes: behaviours that one root cause produces for a whole family of inputs
// are reported as ONE violation per (class, sub-class) and job, with a count and examples;
// the signature is class + sub-class (context and the placeholder kinds / missing-value mode).
var c15Aggregated = map[string]bool{"dirname-without-folder": true, "missing-value-not-fatal": true}

type c15Agg struct {
	n        int
	examples []string
}

func (c *c15Job) viol(class, sub, detail, sig string) {
	k := class + "|" + sub
	c.perClass[k]++
	c.counts["violations_"+class]++
	if c15Aggregated[class] {
		a := c.agg[k]
		if a == nil {
			a = &c15Agg{}
			c.agg[k] = a
		}
		a.n++
		if len(a.examples) < 3 {
			a.examples = append(a.examples, detail)
		}
		return
	}
	if c.perClass[k] > 4 || len(c.res.Violations) >= 60 {
		return
	}
	c.res.Violations = append(c.res.Violations, Violation{Prop: "C15", Class: class, Detail: detail, Signature: sig, Job: c.job.ID})
}

func (c *c15Job) flushAggregated() {
	ks := make([]string, 0, len(c.agg))
	for k := range c.agg {
		ks = append(ks, k)
	}
	sort.Strings(ks)
	for _, k := range ks {
		a := c.agg[k]
		class := k[:strings.Index(k, "|")]
		c.res.Violations = append(c.res.Violations, Violation{Prop: "C15", Class: class, Detail: fmt.Sprintf("%d cases, e.g. %s", a.n, strings.Join(a.examples, " ;; ")), Signature: "c15|" + k, Job: c.job.ID})
	}
}

func c15EnvStr(names []string, env map[string]string, missing map[string]string) string {
	p := []string{}
	for _, n := range names {
		if m, ok := missing[n]; ok {
			p = append(p, n+"=<"+m+">")
		} else {
			p = append(p, n+"="+env[n])
		}
	}
	return strings.Join(p, ",")
}

// mine: does the case belong to this shard; also the distinct-case bookkeeping
func (c *c15Job) mine(key string) bool {
	h := c15Hash(key)
	if h%c.nshards != c.shard {
		return false
	}
	if _, dup := c.seen[h]; dup {
		c.counts["duplicate_cases"]++
		return false
	}
	c.seen[h] = struct{}{}
	return true
}

// one expansion case
func (c *c15Job) expansionCase(level, ctx string, items []c15Item, env map[string]string) {
	pattern := c15Pattern(ctx, items)
	names := c15Names(items)
	key := ctx + "|" + pattern + "|" + c15EnvStr(names, env, nil) // a case reached at two levels counts once
	if !c.mine(key) {
		return
	}
	c.counts["cases_"+level+"_"+ctx]++
	exp := c15Expected(ctx, items, env)
	present := map[string]string{}
	for _, n := range names {
		present[n] = env[n]
	}
	outcome := c.r.run(ctx, pattern, items, present)
	c.execs++
	got := c.r.gotCmd
	if ctx == "setout" {
		got = c.r.gotOut["y"]
	}
	caseStr := fmt.Sprintf("%s pattern %q with %s", ctx, pattern, c15EnvStr(names, env, nil))
	sigTail := ctx + "|" + pattern + "|" + c15EnvStr(names, env, nil)
	if exp.accepted == nil {
		c.counts["not_judged: "+exp.silent]++
		// even where the documentation is silent about the value: no placeholder may survive
		if outcome == "" && strings.Contains(got, "{") {
			c.viol("unreplaced-placeholder", ctx, caseStr+": result "+strconv.Quote(got), "c15|unreplaced-placeholder|"+sigTail)
		}
		return
	}
	c.counts["judged"]++
	if c15ModsEffective(ctx, items, env, exp) {
		c.counts["judged_modifier_effective"]++
	}
	if len(c.res.Samples) < 4 && c.execs%97 == 1 {
		c.res.Samples = append(c.res.Samples, fmt.Sprintf("%s -> %q (expected one of %q)", caseStr, got, exp.accepted))
	}
	if outcome != "" && exp.emptyPath && (strings.HasPrefix(outcome, "panic:") || (strings.HasPrefix(outcome, "exit:") && outcome != "exit:0")) {
		c.counts["stopped_on_empty_path"]++
		if strings.HasPrefix(outcome, "panic:") {
			c.counts["stopped_on_empty_path_by_panic"]++
		}
		return
	}
	if strings.HasPrefix(outcome, "panic:") || outcome == "deadlock" || outcome == "horizon" {
		c.viol("crash", ctx, caseStr+": ended with "+outcome, "c15|crash|"+sigTail)
		return
	}
	if outcome != "" {
		c.viol("unexpected-exit", ctx, fmt.Sprintf("%s: every value is present but the execution ended with %s (%s); expected %q", caseStr, outcome, strings.TrimSpace(errLog.String()), exp.accepted), "c15|unexpected-exit|"+sigTail)
		return
	}
	for _, a := range exp.accepted {
		if got == a {
			// in a SetOut case the command "# {o:y}" must carry the same path
			if ctx == "setout" && !strings.HasPrefix(got, "/") && !strings.Contains(got, "..") && c.r.gotCmd != "# "+got {
				c.viol("wrong-expansion", "cmd-of-setout", fmt.Sprintf("%s: path %q but command %q", caseStr, got, c.r.gotCmd), "c15|wrong-expansion|cmd-of-setout|"+sigTail)
			}
			return
		}
	}
	// known finding: the only deviation is that dirname left a folder-less value unchanged. Where
	// that derivation continues outside the documented domain (defect == "\x00") the value
	// cannot be predicted and the case is attributed to the same root cause.
	if exp.usedDef && (exp.defect == "\x00" || got == exp.defect) {
		kinds := []string{}
		for _, it := range items {
			if it.kind == "lit" {
				continue
			}
			v := env[it.name]
			for _, m := range it.mods {
				// find the placeholder kinds whose chain applies dirname to a folder-less value
				if m == "dirname" && !strings.Contains(v, "/") {
					kinds = append(kinds, it.kind)
				}
				e := c15RefMods(v, []string{m})
				if e.accepted == nil || e.defect == "\x00" {
					break
				}
				v = e.defect
			}
		}
		kinds = c15Uniq(kinds)
		sort.Strings(kinds)
		ks := strings.Join(kinds, "+")
		c.viol("dirname-without-folder", ctx+"|"+ks, fmt.Sprintf("%s: got %q, expected one of %q: dirname of a value without any folder leaves the file name in place", caseStr, got, exp.accepted), "c15|dirname-without-folder|"+ctx+"|"+ks+"|"+pattern+"|"+c15EnvStr(names, env, nil))
		return
	}
	c.viol("wrong-expansion", ctx, fmt.Sprintf("%s: got %q, expected one of %q", caseStr, got, exp.accepted), "c15|wrong-expansion|"+sigTail)
}

// one missing-value case: the names in missing have no value ("absent") or the empty value ("empty")
func (c *c15Job) missingCase(ctx string, items []c15Item, env map[string]string, missing map[string]string) {
	pattern := c15Pattern(ctx, items)
	names := c15Names(items)
	envs := c15EnvStr(names, env, missing)
	key := "MV" + ctx + "|" + pattern + "|" + envs
	if !c.mine(key) {
		return
	}
	c.counts["cases_MV_"+ctx]++
	present := map[string]string{}
	for _, n := range names {
		switch missing[n] {
		case "absent":
		case "empty":
			present[n] = ""
		default:
			present[n] = env[n]
		}
	}
	outcome := c.r.run(ctx, pattern, items, present)
	c.execs++
	mk := []string{}
	for _, it := range items {
		if m, ok := missing[it.name]; ok && it.kind != "lit" {
			mk = append(mk, it.kind+"-"+m)
		}
	}
	mk = c15Uniq(mk)
	sort.Strings(mk)
	sub := ctx + "|" + strings.Join(mk, "+")
	caseStr := fmt.Sprintf("%s pattern %q with %s", ctx, pattern, envs)
	if strings.HasPrefix(outcome, "exit:") && outcome != "exit:0" {
		c.counts["missing_value_stopped"]++
		if len(c.res.Samples) < 6 && c.counts["missing_value_stopped"] == 1 {
			c.res.Samples = append(c.res.Samples, fmt.Sprintf("%s -> %s (%s)", caseStr, outcome, strings.TrimSpace(errLog.String())))
		}
		return
	}
	if outcome == "" {
		c.viol("missing-value-not-fatal", sub, fmt.Sprintf("%s: a value is missing but the task was formed: command %q, out-paths %v", caseStr, c.r.gotCmd, c.r.gotOut), "c15|missing-value-not-fatal|"+sub+"|"+pattern+"|"+envs)
		return
	}
	c.viol("missing-value-crash", sub, fmt.Sprintf("%s: a value is missing and the execution ended with %s instead of a failure exit", caseStr, outcome), "c15|missing-value-crash|"+sub+"|"+pattern+"|"+envs)
}

func c15Products(names []string, vals map[string][]string) []map[string]string {
	out := []map[string]string{{}}
	for _, n := range names {
		next := []map[string]string{}
		for _, m := range out {
			for _, v := range vals[n] {
				nm := map[string]string{}
				for k, x := range m {
					nm[k] = x
				}
				nm[n] = v
				next = append(next, nm)
			}
		}
		out = next
	}
	return out
}

func (c *c15Job) enumerate() {
	u := c.u
	for _, ctx := range []string{"cmd", "setout"} {
		lit := c15Item{kind: "lit", name: u.lits[ctx][0]}
		// L1: one placeholder, every chain up to len1, every value, 4 occurrence shapes
		for _, ph := range u.primary[ctx] {
			for _, ch := range c15Chains(u.mods1, u.len1) {
				p := c15Item{kind: ph.kind, name: ph.name, mods: ch}
				for _, v := range u.vals[ph.name] {
					env := map[string]string{ph.name: v}
					c.expansionCase("L1", ctx, []c15Item{p}, env)
					c.expansionCase("L1", ctx, []c15Item{p, p}, env)
					c.expansionCase("L1", ctx, []c15Item{p, lit, p}, env)
					c.expansionCase("L1", ctx, []c15Item{lit, p}, env)
				}
			}
		}
		// L2: all ordered pairs of items, all value combinations
		its := u.items(ctx, u.len2)
		for _, a := range its {
			for _, b := range its {
				if a.kind == "lit" && b.kind == "lit" {
					continue
				}
				pair := []c15Item{a, b}
				for _, env := range c15Products(c15Names(pair), u.vals) {
					c.expansionCase("L2", ctx, pair, env)
				}
			}
		}
		// L3: all ordered triples of items, the fixed value assignments
		// (when len3 > 1: at most ONE of the three items carries a chain longer than 1)
		its = u.items(ctx, u.len3)
		for _, a := range its {
			for _, b := range its {
				for _, d := range its {
					if a.kind == "lit" && b.kind == "lit" && d.kind == "lit" {
						continue
					}
					long := 0
					for _, it := range []c15Item{a, b, d} {
						if len(it.mods) > 1 {
							long++
						}
					}
					if long > 1 {
						continue
					}
					tr := []c15Item{a, b, d}
					for _, env := range u.envs {
						c.expansionCase("L3", ctx, tr, env)
					}
				}
			}
		}
		// MV: missing values
		env := u.envs[0]
		phs := []c15Ph{}
		for _, ph := range append(append([]c15Ph{}, u.primary[ctx]...), u.second[ctx]...) {
			if ph.kind != "o" {
				phs = append(phs, ph)
			}
		}
		others := []c15Item{lit}
		for _, ph := range append(append([]c15Ph{}, u.primary[ctx]...), u.second[ctx]...) {
			others = append(others, c15Item{kind: ph.kind, name: ph.name})
		}
		for _, ph := range phs {
			modes := []string{"absent"}
			if ph.kind != "i" {
				modes = append(modes, "empty")
			}
			for _, ch := range c15Chains(u.mods23, u.lenMV) {
				m := c15Item{kind: ph.kind, name: ph.name, mods: ch}
				for _, mode := range modes {
					miss := map[string]string{ph.name: mode}
					c.missingCase(ctx, []c15Item{m}, env, miss)
					c.missingCase(ctx, []c15Item{m, m}, env, miss)
					for _, o := range others {
						if o.name == ph.name {
							continue
						}
						c.missingCase(ctx, []c15Item{o, m}, env, miss)
						c.missingCase(ctx, []c15Item{m, o}, env, miss)
						c.missingCase(ctx, []c15Item{o, m, o}, env, miss)
					}
				}
			}
		}
	}
}

func runC15(job *Job, res *Result) {
	os.Setenv("SCIPIPE_BUFSIZE", "2")
	if job.Base != "" {
		// an empty working directory: NewFileIP stats the paths it is given
		d := job.Base + "/c15"
		os.MkdirAll(d, 0777)
		os.Chdir(d)
	}
	vs.ForceAll = -1
	thorough := job.Args["tier"] == "thorough"
	if job.Args["part"] == "defname" {
		runC15DefaultName(job, res, thorough)
		return
	}
	shard, _ := strconv.Atoi(job.Args["shard"])
	nshards, _ := strconv.Atoi(job.Args["nshards"])
	if nshards < 1 {
		nshards = 1
	}
	c := &c15Job{job: job, res: res, u: c15NewUniverse(thorough), shard: uint64(shard), nshards: uint64(nshards), r: &c15Runner{}, seen: map[uint64]struct{}{}, perClass: map[string]int{}, counts: map[string]int{}, agg: map[string]*c15Agg{}}
	res.Scenario = fmt.Sprintf("c15/patterns/tier=%s/shard=%d-of-%d", job.Args["tier"], shard, nshards)
	c.enumerate()
	c.flushAggregated()
	for k, v := range c.counts {
		res.Extra[k] = v
	}
	nontrivial := c.counts["judged_modifier_effective"] + c.counts["cases_MV_cmd"] + c.counts["cases_MV_setout"]
	res.Extra["distinct_nontrivial"] = nontrivial
	res.Extra["distinct_cases"] = len(c.seen)
	res.Stats = vs.Stats{Mode: "enumeration", Execs: c.execs, Nodes: len(c.seen), Transitions: c.execs, Closed: true}
	res.NOutcomes = nontrivial
}

// ------------------------------------------------------------------ default path function

type c15Ident struct {
	proc   string
	ins    map[string]string
	params map[string]string
	tags   map[string]string
	port   string
	ext    string
	twice  bool // the out-port placeholder occurs twice (same extension annotation)
}

func (id *c15Ident) canon() string {
	return fmt.Sprintf("proc=%s ins=%s params=%s tags=%s port=%s ext=%q twice=%v", id.proc, mapStr(id.ins), mapStr(id.params), mapStr(id.tags), id.port, id.ext, id.twice)
}

func (id *c15Ident) pattern() string {
	p := []string{"#"}
	for _, n := range c15SortedKeys(id.ins) {
		p = append(p, "{i:"+n+"}")
	}
	for _, n := range c15SortedKeys(id.params) {
		p = append(p, "{p:"+n+"}")
	}
	o := "{o:" + id.port
	if id.ext != "" {
		o += "|." + id.ext
	}
	o += "}"
	p = append(p, o)
	if id.twice {
		p = append(p, o)
	}
	return strings.Join(p, " ")
}

func c15SortedKeys(m map[string]string) []string {
	ks := make([]string, 0, len(m))
	for k := range m {
		ks = append(ks, k)
	}
	sort.Strings(ks)
	return ks
}

func c15Base(p string) string {
	if i := strings.LastIndex(p, "/"); i >= 0 {
		return p[i+1:]
	}
	return p
}

// all maps with 0..max keys from names, values from values
func c15SubMaps(names []string, values []string, max int) []map[string]string {
	out := []map[string]string{{}}
	var rec func(start int, cur map[string]string)
	rec = func(start int, cur map[string]string) {
		if len(cur) == max {
			return
		}
		for i := start; i < len(names); i++ {
			for _, v := range values {
				nm := map[string]string{}
				for k, x := range cur {
					nm[k] = x
				}
				nm[names[i]] = v
				out = append(out, nm)
				rec(i+1, nm)
			}
		}
	}
	rec(0, map[string]string{})
	return out
}

func c15CopyMap(m map[string]string) map[string]string {
	n := map[string]string{}
	for k, v := range m {
		n[k] = v
	}
	return n
}

func runC15DefaultName(job *Job, res *Result, thorough bool) {
	procs := []string{"p", "pq", "p_q"}
	inNames, inVals := []string{"x", "u"}, []string{"d/e.txt", "a.b/c", "g.txt"}
	parNames, parVals := []string{"z", "q"}, []string{"v", "a_s"}
	tagNames, tagVals := []string{"w", "x.w"}, []string{"g", "a.txt"}
	ports := []string{"y", "out"}
	exts := []string{"", "txt", "csv.gz"}
	maxKeys := 2
	twices := []bool{false}
	if thorough {
		procs = append(procs, "p.q", "p-1")
		inNames = append(inNames, "k")
		parNames = append(parNames, "n")
		tagNames = append(tagNames, "m")
		exts = append(exts, "t-1_x")
		twices = []bool{false, true}
	}
	if job.Args["twice"] == "0" {
		twices = []bool{false}
	} else if job.Args["twice"] == "1" {
		twices = []bool{true}
	}
	ownPorts := ports
	if sel := job.Args["ports"]; sel != "" {
		ownPorts = strings.Split(sel, "|") // shard: identities of these out-port names (neighbours with another port name are computed on demand)
	}
	inMaps := c15SubMaps(inNames, inVals, maxKeys)
	parMaps := c15SubMaps(parNames, parVals, maxKeys)
	tagMaps := c15SubMaps(tagNames, tagVals, maxKeys)
	res.Scenario = fmt.Sprintf("c15/defname/ports=%v/procs=%d/in-maps=%d/param-maps=%d/tag-maps=%d/exts=%d/twice=%d", ownPorts, len(procs), len(inMaps), len(parMaps), len(tagMaps), len(exts), len(twices))
	var wf *sp.Workflow
	execs := 0
	perClass := map[string]int{}
	viol := func(class, detail, sig string) {
		perClass[class]++
		res.Extra["violations_"+class]++
		if perClass[class] > 4 || len(res.Violations) >= 40 {
			return
		}
		res.Violations = append(res.Violations, Violation{Prop: "C15", Class: class, Detail: detail, Signature: sig, Job: job.ID})
	}
	name := func(id *c15Ident) string {
		got := ""
		if wf != nil {
			delete(wf.Procs(), id.proc)
		}
		s := vs.Run(&vs.Prefix{}, func() {
			if wf == nil {
				wf = sp.NewWorkflowCustomLogFile("c15wf", 4, "/dev/null")
			}
			p := wf.NewProc(id.proc, id.pattern())
			inIPs := map[string]*sp.FileIP{}
			for n, v := range id.ins {
				ip, err := sp.NewFileIP(v)
				if err != nil {
					panic("c15 harness: invalid in-path " + v)
				}
				inIPs[n] = ip
			}
			t := sp.NewTask(wf, p, p.Name(), p.CommandPattern, inIPs, p.PathFuncs, p.PortInfo, c15CopyMap(id.params), c15CopyMap(id.tags), p.Prepend, nil, 1)
			got = t.OutIPs[id.port].Path()
			if !strings.HasSuffix(t.Command, " "+got) {
				got = "CMD-MISMATCH: path " + got + " command " + t.Command
			}
		})
		execs++
		if s.Outcome != "" {
			return "OUTCOME " + s.Outcome + " " + strings.TrimSpace(errLog.String())
		}
		return got
	}
	table := map[string]string{} // canon -> default name
	idents := []*c15Ident{}
	names := map[string]bool{}
	for _, pr := range procs {
		for _, ins := range inMaps {
			for _, pars := range parMaps {
				for _, tags := range tagMaps {
					for _, port := range ownPorts {
						for _, ext := range exts {
							for _, tw := range twices {
								if tw && ext == "" {
									continue
								}
								id := &c15Ident{proc: pr, ins: ins, params: pars, tags: tags, port: port, ext: ext, twice: tw}
								c := id.canon()
								vs.ForceAll = -1
								n := name(id)
								if strings.HasPrefix(n, "OUTCOME ") || strings.HasPrefix(n, "CMD-MISMATCH") {
									viol("default-name-failed", c+": "+n, "c15|default-name-failed|"+c)
									continue
								}
								// determinism: every other iteration order of every map
								nv := 1
								for _, l := range []int{len(ins), len(pars), len(tags)} {
									v := 1
									if l == 2 {
										v = 2
									} else if l == 3 {
										v = 6
									}
									if v > nv {
										nv = v
									}
								}
								for v := 1; v < nv; v++ {
									vs.ForceAll = v
									if n2 := name(id); n2 != n {
										viol("default-name-unstable", fmt.Sprintf("%s: %q under sorted map order, %q under order variant %d", c, n, n2, v), "c15|default-name-unstable|"+c)
									}
								}
								vs.ForceAll = -1
								// README form (hello.out.txt / hello.out.txt.world.out.txt): [input file name.]process.port[.extension]
								if len(ins) <= 1 && len(pars) == 0 && len(tags) == 0 {
									pcs := []string{}
									for _, v := range ins {
										pcs = append(pcs, c15Base(v))
									}
									pcs = append(pcs, pr, port)
									if ext != "" {
										pcs = append(pcs, ext)
									}
									if want := strings.Join(pcs, "."); n != want {
										viol("default-name-form", fmt.Sprintf("%s: got %q, the documented form is %q", c, n, want), "c15|default-name-form|"+c)
									}
								}
								table[c] = n
								idents = append(idents, id)
								names[n] = true
								if len(res.Samples) < 3 && len(idents)%1013 == 7 {
									res.Samples = append(res.Samples, c+" -> "+n)
								}
							}
						}
					}
				}
			}
		}
	}
	// a process with SEVERAL out-ports that keep their default names: every port gets its OWN name and
	// extension, under every iteration order of the port map
	for v := 0; v < 6; v++ {
		vs.ForceAll = v
		got := map[string]string{}
		cmd := ""
		sm := vs.Run(&vs.Prefix{}, func() {
			if wf == nil {
				wf = sp.NewWorkflowCustomLogFile("c15wf", 4, "/dev/null")
			}
			delete(wf.Procs(), "multi")
			p := wf.NewProc("multi", "tool {i:x} --left {o:left|.txt} --right {o:right|.log} --rest {o:rest}")
			ip, err := sp.NewFileIP("d.csv")
			if err != nil {
				panic("c15 harness: invalid in-path")
			}
			t := sp.NewTask(wf, p, p.Name(), p.CommandPattern, map[string]*sp.FileIP{"x": ip}, p.PathFuncs, p.PortInfo, map[string]string{}, map[string]string{}, p.Prepend, nil, 1)
			for port, oip := range t.OutIPs {
				got[port] = oip.Path()
			}
			cmd = t.Command
		})
		vs.ForceAll = -1
		execs++
		if sm.Outcome != "" {
			viol("default-name-failed", "three default out-ports: "+sm.Outcome, "c15|default-name-failed|multi")
			break
		}
		want := map[string]string{"left": "d.csv.multi.left.txt", "right": "d.csv.multi.right.log", "rest": "d.csv.multi.rest"}
		for port, w := range want {
			if got[port] != w {
				viol("default-name-form", fmt.Sprintf("process with out-ports left|.txt, right|.log, rest (map order variant %d): default path of %s is %q, the documented form is %q (command %q)", v, port, got[port], w, cmd), "c15|default-name-form|multi|"+port)
			}
		}
	}
	// maps with three keys: every one of the 6 iteration orders of every map (1 process, 1 port)
	if (job.Args["ports"] == "" || ownPorts[0] == ports[0]) && !twices[0] {
		three := func(names []string, vals []string) map[string]string {
			m := map[string]string{}
			for i, n := range append(append([]string{}, names...), "k3")[:3] {
				m[n] = vals[i%len(vals)]
			}
			return m
		}
		for mask := 1; mask < 8; mask++ {
			id := &c15Ident{proc: "p3", ins: map[string]string{}, params: map[string]string{}, tags: map[string]string{}, port: ports[0], ext: "txt"}
			if mask&1 != 0 {
				id.ins = three(inNames, inVals)
			}
			if mask&2 != 0 {
				id.params = three(parNames, parVals)
			}
			if mask&4 != 0 {
				id.tags = three(tagNames, tagVals)
			}
			vs.ForceAll = -1
			n := name(id)
			for v := 1; v < 6; v++ {
				vs.ForceAll = v
				if n2 := name(id); n2 != n || strings.HasPrefix(n, "OUTCOME ") {
					viol("default-name-unstable", fmt.Sprintf("%s: %q under sorted map order, %q under order variant %d", id.canon(), n, n2, v), "c15|default-name-unstable|"+id.canon())
				}
			}
			vs.ForceAll = -1
			res.Extra["default_name_three_key_identities"]++
		}
	}
	// sensitivity: two identities that differ in exactly one component have different names
	pairs := 0
	check := func(id *c15Ident, n string, nb *c15Ident, comp string) {
		c2 := nb.canon()
		n2, ok := table[c2]
		if !ok { // neighbour outside this job's shard: computed on demand
			vs.ForceAll = -1
			n2 = name(nb)
			table[c2] = n2
			res.Extra["default_name_neighbours_on_demand"]++
		}
		pairs++
		if n2 == n {
			a, b := id.canon(), c2
			if b < a {
				a, b = b, a
			}
			viol("default-name-insensitive", fmt.Sprintf("component %s: %s  and  %s  both get %q", comp, a, b, n), "c15|default-name-insensitive|"+comp+"|"+a+" <-> "+b)
		}
	}
	mapNeighbours := func(m map[string]string, allNames, allVals []string, sameName func(a, b string) bool, f func(nm map[string]string, what string)) {
		for k, v := range m {
			for _, v2 := range allVals { // change one value
				if v2 != v && !sameName(v, v2) {
					nm := c15CopyMap(m)
					nm[k] = v2
					f(nm, "value")
				}
			}
			nm := c15CopyMap(m) // remove one entry
			delete(nm, k)
			f(nm, "presence")
			for _, k2 := range allNames { // rename one entry
				if _, used := m[k2]; !used {
					nm := c15CopyMap(m)
					delete(nm, k)
					nm[k2] = v
					f(nm, "name")
				}
			}
		}
	}
	never := func(a, b string) bool { return false }
	sameBase := func(a, b string) bool { return c15Base(a) == c15Base(b) }
	for _, id := range idents {
		n := table[id.canon()]
		for _, pr := range procs {
			if pr != id.proc {
				nb := *id
				nb.proc = pr
				check(id, n, &nb, "process-name")
			}
		}
		for _, po := range ports {
			if po != id.port {
				nb := *id
				nb.port = po
				check(id, n, &nb, "port-name")
			}
		}
		for _, e := range exts {
			if e != id.ext && !(id.twice && e == "") {
				nb := *id
				nb.ext = e
				check(id, n, &nb, "extension")
			}
		}
		mapNeighbours(id.ins, inNames, inVals, sameBase, func(nm map[string]string, what string) {
			if what == "name" {
				return // the in-port's name is not a component of the default name
			}
			nb := *id
			nb.ins = nm
			check(id, n, &nb, "input-"+what)
		})
		mapNeighbours(id.params, parNames, parVals, never, func(nm map[string]string, what string) {
			nb := *id
			nb.params = nm
			check(id, n, &nb, "param-"+what)
		})
		mapNeighbours(id.tags, tagNames, tagVals, never, func(nm map[string]string, what string) {
			nb := *id
			nb.tags = nm
			check(id, n, &nb, "tag-"+what)
		})
	}
	res.Stats = vs.Stats{Mode: "enumeration", Execs: execs, Nodes: len(idents), Transitions: execs, Closed: true}
	res.NOutcomes = len(names)
	res.Extra["default_name_identities"] = len(idents)
	res.Extra["default_name_distinct_names"] = len(names)
	res.Extra["default_name_single_component_pairs"] = pairs
	res.Extra["distinct_nontrivial"] = len(names)
	if job.Args["twice"] == "1" {
		// the names of this shard are, by the oracle, those of the twice=0 shard: not counted again
		res.Extra["distinct_nontrivial"] = 0
		res.NOutcomes = 0
	}
}
