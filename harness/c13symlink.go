//go:build verif

package main

import (
	"fmt"
	"os"
	"path/filepath"
	"strings"

	sp "github.com/scipipe/scipipe"
	"github.com/scipipe/scipipe/components"
	"vs"
)

// C13, input clause, real bash: input paths that step back over a SYMBOLIC LINK to a directory.
// The kernel resolves "lnk/.." to the parent of the link's TARGET; a lexically cleaned path
// ("lnk/.." dropped) names another file. {i:in} must reach the real input's bytes from inside
// the task's working directory.
func init() { specialJobs["c13symlink"] = runC13Symlink }

func runC13Symlink(job *Job, res *Result) {
	if job.Base == "" {
		job.Base = fmt.Sprintf("/dev/shm/vw-%d", os.Getpid())
	}
	res.Scenario = "c13/input-behind-symlinked-directory"
	vs.ExecMode = "real"
	vs.SimExec = nil
	vs.CrashMode, vs.DiskDependent, vs.RaceMode, vs.EventsDependent = false, false, false, false
	vs.ForceAll = -1
	type tc struct{ name, link, target, in, real, decoy string }
	cases := []tc{
		{"first-segment", "lnk", "a/b", "lnk/../in.txt", "a/in.txt", "in.txt"},
		{"inner-segment", "d/lnk", "../x/y/z", "d/lnk/../in.txt", "x/y/in.txt", "d/in.txt"},
		{"two-steps-back", "lnk", "a/b", "lnk/../../top.txt", "top.txt", "../top.txt"},
	}
	n := 0
	for _, c := range cases {
		dir := filepath.Join(job.Base, "e", c.name, "cwd")
		os.RemoveAll(filepath.Join(job.Base, "e", c.name))
		os.MkdirAll(dir, 0777)
		os.Chdir(dir)
		vs.Cwd = dir
		vs.TmpRoot = filepath.Join(job.Base, "tmp")
		os.MkdirAll(vs.TmpRoot, 0777)
		os.MkdirAll(filepath.Dir(c.link), 0777)
		os.MkdirAll(filepath.Join(filepath.Dir(c.link), c.target), 0777)
		os.Symlink(c.target, c.link)
		os.MkdirAll(filepath.Dir(c.real), 0777)
		os.WriteFile(c.decoy, []byte("DECOY\n"), 0644)
		os.WriteFile(c.real, []byte("REAL\n"), 0644) // written last: in the third case decoy and real differ only by location
		if b, err := os.ReadFile(c.in); err != nil || string(b) != "REAL\n" {
			res.Error = fmt.Sprintf("c13symlink: scenario %s is not set up as intended: %q %v", c.name, b, err)
			return
		}
		errLog.Reset()
		cmdline := ""
		vs.ExecLog = func(name string, args []string) {
			if name == "bash" && len(args) == 2 {
				cmdline = args[1]
			}
		}
		s := vs.RunOnce(nil, func() {
			wf := sp.NewWorkflowCustomLogFile("c13", 2, "/dev/null")
			src := components.NewFileSource(wf, "src", c.in)
			p := wf.NewProc("p", "cat {i:in} > {o:out}")
			p.SetOut("out", "res.txt")
			p.In("in").From(src.Out())
			wf.Run()
		}, nil)
		vs.ExecLog = nil
		n++
		got, _ := os.ReadFile(filepath.Join(dir, "res.txt"))
		os.Chdir("/")
		res.Samples = append(res.Samples, fmt.Sprintf("%s: in=%q executed=%q outcome[%s] res=%q", c.name, c.in, cmdline, s.Outcome, got))
		if strings.Contains(s.Outcome, "replay divergence") || strings.Contains(s.Outcome, "panic:vs:") || strings.HasPrefix(s.Outcome, "unsupported:") {
			res.Error = "engine error: " + s.Outcome
			return
		}
		if s.Outcome != "" || string(got) != "REAL\n" {
			res.Violations = append(res.Violations, Violation{Prop: job.Prop, Class: "input-not-resolved", Job: job.ID,
				Detail:    fmt.Sprintf("input %q (link %s -> %s): inside the task's working directory {i:in} did not resolve to the input file's bytes: outcome '%s', the command %q read %q", c.in, c.link, c.target, s.Outcome, cmdline, got),
				Signature: res.Scenario + "|input-not-resolved|" + c.name})
		}
	}
	// extra files that are NOT regular files: symbolic links the command leaves in its working directory
	// (ln -s {i:ref} ref.fa, latest.log -> run1.log) are moved to the same relative location like any other file
	{
		dir := filepath.Join(job.Base, "e", "link-extras", "cwd")
		os.RemoveAll(filepath.Join(job.Base, "e", "link-extras"))
		os.MkdirAll(dir, 0777)
		os.Chdir(dir)
		vs.Cwd = dir
		os.WriteFile("in.txt", []byte("IN\n"), 0644)
		errLog.Reset()
		s := vs.RunOnce(nil, func() {
			wf := sp.NewWorkflowCustomLogFile("c13", 2, "/dev/null")
			src := components.NewFileSource(wf, "src", "in.txt")
			p := wf.NewProc("p", "cat {i:in} > {o:out} && echo log > run1.log && ln -s run1.log latest.log && mkdir -p logs && ln -s ../run1.log logs/current.log")
			p.SetOut("out", "res.txt")
			p.In("in").From(src.Out())
			wf.Run()
		}, nil)
		n++
		os.Chdir("/")
		missing := []string{}
		for _, l := range []string{"latest.log", "logs/current.log"} {
			if fi, err := os.Lstat(filepath.Join(dir, l)); err != nil || fi.Mode()&os.ModeSymlink == 0 {
				missing = append(missing, l)
			}
		}
		if _, err := os.Stat(filepath.Join(dir, "run1.log")); err != nil {
			missing = append(missing, "run1.log")
		}
		res.Samples = append(res.Samples, fmt.Sprintf("link-extras: outcome[%s] not at their relative location: %v", s.Outcome, missing))
		if s.Outcome != "" || len(missing) > 0 {
			res.Violations = append(res.Violations, Violation{Prop: job.Prop, Class: "extra-misplaced", Job: job.ID,
				Detail:    fmt.Sprintf("extra files the command left in its working directory (symbolic links among them) are not at the same relative location afterwards: %v (outcome '%s')", missing, s.Outcome),
				Signature: res.Scenario + "|extra-misplaced|link-extras"})
		}
	}
	// an extra file whose destination is already taken by an OLDER file (a side file of an earlier run / of another
	// task): what the command wrote is what is there afterwards
	{
		dir := filepath.Join(job.Base, "e", "extra-over-older", "cwd")
		os.RemoveAll(filepath.Join(job.Base, "e", "extra-over-older"))
		os.MkdirAll(filepath.Join(dir, "side"), 0777)
		os.Chdir(dir)
		vs.Cwd = dir
		os.WriteFile("in.txt", []byte("IN\n"), 0644)
		os.WriteFile("notes.txt", []byte("OLD\n"), 0644)
		os.WriteFile("side/notes.txt", []byte("OLD\n"), 0644)
		errLog.Reset()
		s := vs.RunOnce(nil, func() {
			wf := sp.NewWorkflowCustomLogFile("c13", 2, "/dev/null")
			src := components.NewFileSource(wf, "src", "in.txt")
			p := wf.NewProc("p", "cat {i:in} > {o:out} && echo NEW1 > notes.txt && mkdir -p side && echo NEW2 > side/notes.txt")
			p.SetOut("out", "res.txt")
			p.In("in").From(src.Out())
			wf.Run()
		}, nil)
		n++
		os.Chdir("/")
		a, _ := os.ReadFile(filepath.Join(dir, "notes.txt"))
		b, _ := os.ReadFile(filepath.Join(dir, "side/notes.txt"))
		res.Samples = append(res.Samples, fmt.Sprintf("extra-over-older: outcome[%s] notes=%q side/notes=%q", s.Outcome, a, b))
		if s.Outcome != "" || string(a) != "NEW1\n" || string(b) != "NEW2\n" {
			res.Violations = append(res.Violations, Violation{Prop: job.Prop, Class: "extra-misplaced", Job: job.ID,
				Detail:    fmt.Sprintf("extra files written over older files of the same name: notes.txt holds %q (command wrote NEW1), side/notes.txt holds %q (command wrote NEW2), outcome '%s'", a, b, s.Outcome),
				Signature: res.Scenario + "|extra-misplaced|extra-over-older"})
		}
	}
	os.RemoveAll(filepath.Join(job.Base, "e"))
	res.Stats = vs.Stats{Mode: "enumeration", Execs: n, Transitions: n, Nodes: n, Closed: true}
	res.NOutcomes = n
	res.Extra["cases_nontrivial"] = n
}
