//go:build verif

package main

import (
	"encoding/json"
	"fmt"
	"os"
	"path/filepath"
	"sort"
	"strings"

	"vs"
)

// Oracles of the crash / fault / history properties C01 C02 C03 C09.

func init() {
	extraOracles = append(extraOracles, oracleC09, oracleC09Unformed, oracleC01End, oracleC02, oracleC03)
}

func nonZeroExit(outcome string) bool {
	if injectedPanic(outcome) {
		return true // an unrecovered panic ends a Go program with status 2
	}
	return strings.HasPrefix(outcome, "exit:") && outcome != "exit:0"
}

// injectedPanic: the program died of the panic the fault "panic-mid" raised in a task's Go function
func injectedPanic(outcome string) bool {
	return strings.HasPrefix(outcome, "panic:") && strings.Contains(outcome, "injected-panic")
}

// failingTasks: reference tasks hit by the job's fault.
func (r *runner) failingTasks() []*RefTask {
	out := []*RefTask{}
	if r.job.Fault == nil {
		return out
	}
	for _, t := range r.ref.Tasks {
		if t.Proc == r.job.Fault.Proc && strings.Contains(t.Key, r.job.Fault.Match) {
			out = append(out, t)
		}
	}
	return out
}

// dependsOn: does task t transitively depend on an output of task f?
func (r *runner) dependsOn(t *RefTask, f *RefTask, seen map[string]bool) bool {
	for _, d := range t.Deps {
		if d == f.Key {
			return true
		}
		if seen[d] {
			continue
		}
		seen[d] = true
		if dt := r.ref.ByKey[d]; dt != nil && r.dependsOn(dt, f, seen) {
			return true
		}
	}
	return false
}

// ---------------------------------------------------------------- C09

func oracleC09(r *runner, o *Obs) []Violation {
	if !r.wants("c09") {
		return nil
	}
	vs := []Violation{}
	add := func(class, detail string) { vs = append(vs, Violation{Prop: "C09", Class: class, Detail: detail}) }
	if o.Outcome == "deadlock" || o.Outcome == "horizon" || (strings.HasPrefix(o.Outcome, "panic:") && !injectedPanic(o.Outcome)) {
		return vs // reported by nohang
	}
	if !nonZeroExit(o.Outcome) {
		add("silent-failure", "a task failed ("+r.job.Fault.Kind+") but the workflow program ended with outcome '"+o.Outcome+"'")
	}
	if has(o.Notes, "COMPLETED") {
		add("reported-completion", "the program reached its completion marker although a task failed")
	}
	started, _ := startedEnded(o.Events)
	for _, f := range r.failingTasks() {
		for _, p := range f.Outs {
			if _, ok := o.Tree[p]; ok {
				add("failed-output-finalized", "output "+p+" of the failing task "+f.Key+" exists at its final path")
			}
		}
		for _, t := range r.ref.Tasks {
			if started[t.Key] > 0 && r.dependsOn(t, f, map[string]bool{}) {
				add("dependent-executed", "task "+t.Key+" executed although it depends on the failing task "+f.Key)
			}
		}
	}
	return vs
}

func oracleC09Unformed(r *runner, o *Obs) []Violation {
	if !r.wants("c09-unformed") {
		return nil
	}
	out := []Violation{}
	if o.Outcome == "deadlock" || o.Outcome == "horizon" || strings.HasPrefix(o.Outcome, "panic:") {
		return out
	}
	if !nonZeroExit(o.Outcome) {
		out = append(out, Violation{Prop: "C09", Class: "silent-failure", Detail: "a task could not be formed (" + r.job.Scen.Extra + ") but the program ended with outcome '" + o.Outcome + "'"})
	}
	if has(o.Notes, "COMPLETED") {
		out = append(out, Violation{Prop: "C09", Class: "reported-completion", Detail: "completion reported although a task could not be formed (" + r.job.Scen.Extra + ")"})
	}
	for _, c := range o.Cmds {
		if strings.Contains(c, "{") || strings.Contains(c, "a= ") || strings.HasSuffix(c, "a= && cd ..") {
			out = append(out, Violation{Prop: "C09", Class: "unreplaced-placeholder", Detail: "command executed with an empty or unreplaced placeholder: " + c})
		}
	}
	return out
}

// ---------------------------------------------------------------- C01

// c01Predicate: the state predicate of C01 on a disk tree, given the events logged so far.
// declared outputs: exists => complete reference bytes and the producing task ended
// successfully (or the file pre-existed); every other data file lives below a temp dir.
func (r *runner) c01Predicate(tree map[string]string, events []string, where string) []Violation {
	vs := []Violation{}
	add := func(class, detail string) {
		vs = append(vs, Violation{Prop: "C01", Class: class, Detail: detail, Signature: r.res.Scenario + "|" + class + "|" + detail})
	}
	_, ended := startedEnded(events)
	declared := map[string]*RefTask{}
	for _, t := range r.ref.Tasks {
		for port, p := range t.Outs {
			if ps := r.spec.proc(t.Proc); ps != nil {
				stream := false
				for _, o := range ps.Outs {
					if o.Name == port && o.Stream {
						stream = true
					}
				}
				if stream {
					continue
				}
			}
			declared[p] = t
		}
	}
	exp := r.expectedFiles()
	// a declared output that is a DIRECTORY: once it exists at its final path it is complete
	for dir, parts := range r.ref.DirOuts {
		if tree[dir] != "<dir>" {
			continue
		}
		if r.seedTree != nil && r.seedTree[dir] == "<dir>" {
			continue
		}
		for _, f := range parts {
			if got, ok := tree[f]; !ok || got != exp[f] {
				add("partial-output", fmt.Sprintf("directory output %s exists at its final path but %s is missing or incomplete (%s)", dir, f, where))
			}
		}
	}
	// files finalized by a file-writing component (FileSplitter parts): complete once at the final path
	for f, want := range r.ref.CompFiles {
		if got, ok := tree[f]; ok && got != want {
			if r.seedTree != nil {
				if sc, was := r.seedTree[f]; was && sc == got {
					continue
				}
			}
			add("partial-output", fmt.Sprintf("%s at its final path holds %q, complete content is %q (%s)", f, clip(got, 40), clip(want, 40), where))
		}
	}
	for p, c := range tree {
		if _, comp := r.ref.CompFiles[p]; comp {
			continue
		}
		if c == "<dir>" || strings.HasSuffix(p, ".audit.json") || strings.HasSuffix(p, ".audit.json.tmp") || isTemp(p) {
			continue // the audit side-car (and its write-then-rename sibling) is not an output file
		}
		if inDirOut(r.ref, p) {
			continue // judged with its directory above
		}
		if t, ok := declared[p]; ok {
			if r.seedTree != nil {
				if sc, was := r.seedTree[p]; was && sc == c {
					continue // left by the earlier run; judged there
				}
			}
			if _, pre := r.job.Pre[p]; pre {
				continue
			}
			if c != exp[p] {
				add("partial-output", fmt.Sprintf("%s at its final path holds %q, complete content is %q (%s)", p, clip(c, 60), clip(exp[p], 60), where))
			} else if ended[t.Key] == 0 {
				add("output-before-success", fmt.Sprintf("%s exists at its final path but task %s has not finished successfully (%s)", p, t.Key, where))
			}
			continue
		}
		if _, src := r.ref.Files[p]; src {
			continue
		}
		if r.seedTree != nil {
			if _, was := r.seedTree[p]; was {
				continue
			}
		}
		add("stray-file", fmt.Sprintf("unfinished work outside the temp directory: %s (%s)", p, where))
	}
	return vs
}

func inDirOut(ref *Ref, p string) bool {
	for _, parts := range ref.DirOuts {
		for _, f := range parts {
			if f == p {
				return true
			}
		}
	}
	return false
}

// dirOutOf: the directory output that holds file p ("" if none)
func dirOutOf(ref *Ref, p string) string {
	for dir, parts := range ref.DirOuts {
		for _, f := range parts {
			if f == p {
				return dir
			}
		}
	}
	return ""
}

func classOfAfter(after string) string {
	f := strings.Fields(after)
	if len(f) == 0 {
		return "?"
	}
	return f[0]
}

func oracleC01End(r *runner, o *Obs) []Violation {
	if r.wants("c10-instant") && !r.wants("c01") {
		vs := r.c10Predicate(o.Tree, "end of execution, outcome '"+o.Outcome+"'")
		vs = append(vs, r.crashViolations...)
		r.crashViolations = nil
		return vs
	}
	if !r.wants("c01") {
		return nil
	}
	vs := r.c01Predicate(o.Tree, o.Events, "end of execution, outcome '"+o.Outcome+"'")
	// violations found at crash points during this execution
	vs = append(vs, r.crashViolations...)
	r.crashViolations = nil
	if r.job.Fault != nil {
		if !nonZeroExit(o.Outcome) && o.Outcome != "deadlock" {
			vs = append(vs, Violation{Prop: "C01", Class: "fault-not-fatal", Detail: "command failed (" + r.job.Fault.Kind + ") but outcome is '" + o.Outcome + "'"})
		}
	}
	return vs
}

// c10Predicate: at any instant, a declared output that exists at its final path is
// accompanied by a valid audit file.
func (r *runner) c10Predicate(tree map[string]string, where string) []Violation {
	out := []Violation{}
	for _, t := range r.ref.Tasks {
		for _, p := range t.Outs {
			if _, ok := tree[p]; !ok {
				continue
			}
			if _, pre := r.job.Pre[p]; pre {
				continue
			}
			if r.seedTree != nil {
				if _, was := r.seedTree[p]; was {
					continue
				}
			}
			a, ok := tree[p+".audit.json"]
			cls := ""
			if !ok {
				cls = "finalized-without-audit"
			} else if !json.Valid([]byte(a)) || len(a) == 0 {
				cls = "finalized-with-broken-audit"
			}
			if cls != "" {
				d := fmt.Sprintf("output %s is at its final path but its audit file is %s (%s)", p, map[string]string{"finalized-without-audit": "missing", "finalized-with-broken-audit": "empty or not valid JSON"}[cls], where)
				out = append(out, Violation{Prop: "C10", Class: cls, Detail: d, Signature: r.res.Scenario + "|" + cls + "|" + p + "|" + where})
			}
		}
	}
	return out
}

func (r *runner) crashHook(tree map[string]string, after string) {
	if vs.Cur == nil {
		return
	}
	if r.wants("c10-instant") {
		r.crashViolations = append(r.crashViolations, r.c10Predicate(tree, "killed after "+classOfAfter(after))...)
	}
	if !r.wants("c01") {
		return
	}
	for _, v := range r.c01Predicate(tree, vs.Cur.EventList(), "killed after "+classOfAfter(after)) {
		r.crashViolations = append(r.crashViolations, v)
	}
}

// ---------------------------------------------------------------- C02

func oracleC02(r *runner, o *Obs) []Violation {
	if !r.wants("c02") {
		return nil
	}
	out := []Violation{}
	add := func(class, detail string) { out = append(out, Violation{Prop: "C02", Class: class, Detail: detail}) }
	started, _ := startedEnded(o.Events)
	protected := r.protectedFiles()
	for k := range r.skipped() {
		if started[k] > 0 {
			add("re-executed", "task "+k+" executed although one of its outputs already existed")
		}
	}
	if r.wants("c02-norun") {
		for k := range started {
			add("re-executed", "task "+k+" executed in a re-run of a completed workflow")
		}
	}
	after := statAll(".")
	for p := range protected {
		if strings.HasSuffix(p, ".audit.json") {
			continue
		}
		b, ok := r.preStat[p]
		if !ok {
			continue
		}
		a, ok2 := after[p]
		if !ok2 {
			add("modified", "pre-existing output "+p+" disappeared")
		} else if a != b {
			_ = a
			_ = b
			add("modified", fmt.Sprintf("pre-existing output %s was replaced or rewritten (its inode / mtime_ns / size changed)", p))
		} else if c, _ := os.ReadFile(p); string(c) != protected[p] {
			add("modified", "pre-existing output "+p+" changed its bytes")
		}
	}
	for _, m := range r.protectedHits {
		add("modified", m)
	}
	r.protectedHits = nil
	return out
}

// protectedFiles: files that existed before the run and are declared outputs: path -> content
func (r *runner) protectedFiles() map[string]string {
	if r.protected != nil {
		return r.protected
	}
	m := map[string]string{}
	for p, c := range r.job.Pre {
		m[p] = c
	}
	if r.seedTree != nil && r.wants("c02-norun") {
		for p, c := range r.seedTree {
			if c != "<dir>" && !strings.HasSuffix(p, ".audit.json") {
				m[p] = c
			}
		}
	}
	if r.seedTree != nil && r.wants("c02-seed") {
		// a history taken from a crash state: the declared outputs that are at their final paths
		for _, t := range r.ref.Tasks {
			for _, p := range t.Outs {
				if c, ok := r.seedTreeAfterClean[p]; ok && c != "<dir>" {
					m[p] = c
				}
			}
		}
	}
	r.protected = m
	return m
}

func (r *runner) fsHook(op string, paths []string, mutating bool, err error) {
	if !mutating || !r.wants("c02") {
		return
	}
	prot := r.protectedFiles()
	for _, p := range paths {
		cp := normPath(filepath.Clean(p))
		if _, ok := prot[cp]; ok && err == nil {
			r.protectedHits = append(r.protectedHits, fmt.Sprintf("mutating call %s on pre-existing output %s", op, cp))
		}
	}
}

// ---------------------------------------------------------------- C03

// finalBefore: reference tasks all of whose (non-streaming) outputs were final in the seed.
func (r *runner) finalBefore() map[string]bool {
	m := map[string]bool{}
	if r.seedTree == nil {
		return m
	}
	for _, t := range r.ref.Tasks {
		if len(t.Outs) == 0 {
			continue
		}
		all := true
		for _, p := range t.Outs {
			if parts, isDir := r.ref.DirOuts[p]; isDir {
				for _, f := range parts {
					if c, ok := r.seedTree[f]; !ok || c != r.ref.Files[f] {
						all = false
					}
				}
				continue
			}
			if c, ok := r.seedTree[p]; !ok || c != r.ref.Files[p] {
				all = false
			}
		}
		if all {
			m[t.Key] = true
		}
	}
	return m
}

func leftoversIn(tree map[string]string) []string {
	l := []string{}
	for p, c := range tree {
		segs := strings.Split(p, "/")
		last := segs[len(segs)-1]
		if c == "<dir>" && strings.HasPrefix(last, "_scipipe_tmp") {
			l = append(l, p)
		}
		if c == "<fifo>" || strings.HasSuffix(p, ".fifo") {
			l = append(l, p)
		}
	}
	sort.Strings(l)
	return l
}

func oracleC03(r *runner, o *Obs) []Violation {
	if !r.wants("c03") {
		return nil
	}
	out := []Violation{}
	crashInfo := r.job.Args["crash_after"]
	add := func(class, detail string) {
		out = append(out, Violation{Prop: "C03", Class: class, Detail: detail + " [crash state: killed after " + crashInfo + "]", Signature: r.job.Args["origin"] + "|" + class + "|" + crashInfo})
	}
	left := leftoversIn(r.seedTreeAfterClean)
	started, _ := startedEnded(o.Events)
	if len(left) > 0 {
		// R1: leftovers were not removed: the re-run must refuse
		if !nonZeroExit(o.Outcome) {
			add("adopted-leftovers", fmt.Sprintf("leftovers %v were present but the re-run ended with outcome '%s'", left, o.Outcome))
		}
		if has(o.Notes, "COMPLETED") {
			add("adopted-leftovers", "re-run reported completion although leftovers were present")
		}
		return out
	}
	// R2 (or R1 without leftovers): must complete and converge
	if o.Outcome != "" || !has(o.Notes, "COMPLETED") {
		add("resume-failed", "re-run after cleanup did not complete: outcome '"+o.Outcome+"' "+firstLine(o.ErrLog))
		return out
	}
	for p, c := range r.ref.Files {
		got, ok := o.Tree[p]
		if !ok {
			add("resume-missing-output", "after the resumed run "+p+" does not exist")
		} else if got != c {
			add("resume-wrong-content", fmt.Sprintf("after the resumed run %s holds %q, uninterrupted run gives %q", p, clip(got, 60), clip(c, 60)))
		}
	}
	for p, c := range o.Tree {
		if c == "<dir>" || strings.HasSuffix(p, ".audit.json") {
			continue
		}
		if _, ok := r.ref.Files[p]; !ok {
			add("resume-extra-file", "after the resumed run there is an unexpected file "+p)
		}
	}
	for k := range r.finalBefore() {
		if started[k] > 0 {
			add("resume-re-executed", "task "+k+" was re-executed although its outputs had been finalized before the crash")
		}
	}
	after := statAll(".")
	for k := range r.finalBefore() {
		for _, p := range r.ref.ByKey[k].Outs {
			if _, isDir := r.ref.DirOuts[p]; isDir {
				continue
			}
			if b, ok := r.preStat[p]; ok && after[p] != b {
				add("resume-modified", "finalized output "+p+" was modified by the resumed run")
			}
		}
	}
	if l := leftoversIn(o.Tree); len(l) > 0 {
		add("resume-leftover", fmt.Sprintf("after the resumed run leftovers remain: %v", l))
	}
	return out
}

// ---------------------------------------------------------------- C18

func init() { extraOracles = append(extraOracles, oracleC18) }

func applyJoinMod(p, mod string) string {
	switch {
	case mod == "basename":
		return filepath.Base(p)
	case strings.HasPrefix(mod, "%"):
		return "../" + strings.TrimSuffix(p, mod[1:])
	case mod == "" && filepath.IsAbs(p):
		return p // an absolute path resolves from anywhere
	case mod == "":
		return "../" + p
	}
	return p
}

func oracleC18(r *runner, o *Obs) []Violation {
	if !r.wants("c18") || o.Outcome != "" {
		return nil
	}
	out := []Violation{}
	add := func(class, detail string) { out = append(out, Violation{Prop: "C18", Class: class, Detail: detail}) }
	ps := r.spec.proc("j")
	members := r.ref.Emit["j.members"]
	started, _ := startedEnded(o.Events)
	if started["j[]"] != 1 {
		add("task-count", fmt.Sprintf("the joining process ran %d tasks for one sub-stream", started["j[]"]))
	}
	for _, port := range []string{"x", "y"} {
		mem, sep := members, ps.JoinSep
		if port == "y" {
			if ps.JoinSep2 == "" {
				continue
			}
			mem, sep = r.ref.Emit["j.members2"], ps.JoinSep2
		}
		exp := []string{}
		for _, m := range mem {
			exp = append(exp, applyJoinMod(m, ps.JoinMod))
		}
		want := strings.Join(exp, sep)
		got := []string{}
		for _, n := range o.Notes {
			if strings.HasPrefix(n, "joined:"+port+":") {
				got = append(got, n[len("joined:"+port+":"):])
			}
		}
		if len(got) == 1 && ps.JoinMod != "" {
			// the documentation is silent on whether a relocating modifier keeps the "../" prefix
			// inside a join: compare order and names only
			norm := func(x string) string {
				parts := strings.Split(x, sep)
				for i := range parts {
					parts[i] = strings.TrimPrefix(parts[i], "../")
				}
				return strings.Join(parts, sep)
			}
			got[0], want = norm(got[0]), norm(want)
		}
		if len(got) == 1 && got[0] != want {
			add("join-argument", fmt.Sprintf("the placeholder of in-port %s was replaced by %q, its sub-stream is %q", port, got[0], want))
		}
	}
	members = append(append([]string{}, members...), r.ref.Emit["j.members2"]...)
	// audit: every member is recorded as upstream
	if a, ok := o.Tree["joined.txt.audit.json"]; ok {
		var rec struct {
			Upstream map[string]json.RawMessage
		}
		if err := json.Unmarshal([]byte(a), &rec); err != nil {
			add("audit-invalid", "joined.txt.audit.json is not valid JSON")
		} else {
			for _, m := range members {
				if _, ok := rec.Upstream[m]; !ok {
					add("audit-upstream", "member "+m+" of the sub-stream is not recorded as upstream of the joined output")
				}
			}
			for k := range rec.Upstream {
				if !has(members, k) {
					add("audit-upstream", "unexpected upstream entry "+k+" in the joined output's audit record")
				}
			}
		}
	} else if has(o.Notes, "COMPLETED") {
		add("audit-missing", "joined.txt has no audit file")
	}
	return out
}
