//go:build verif

// vworker: runs ONE exploration job (scenario x configuration x mode) of the scipipe
// verification harness and prints its result as JSON. It is compiled against the
// instrumented copy of /repo's working tree (see /verif/vcheck.py).
package main

import (
	"syscall"
	"bytes"
	"encoding/json"
	"flag"
	"fmt"
	"io/ioutil"
	"os"
	"path/filepath"
	"runtime/pprof"
	"sort"
	"strings"
	"time"

	sp "github.com/scipipe/scipipe"
	"vs"
)

// Job is what the driver hands to one worker process.
type Job struct {
	ID         string            `json:"id"`
	Prop       string            `json:"prop"`
	Kind       string            `json:"kind"` // "wf" (workflow scenario, default) or a special job kind
	Scen       ScenParams        `json:"scen"`
	Spec       *WSpec            `json:"spec,omitempty"` // explicit spec instead of a catalogue entry
	Mode       string            `json:"mode"`           // "dpor" | "delay" | "single" | "replay"
	Delay      int               `json:"delay"`
	Budget     float64           `json:"budget"` // seconds
	Fault      *Fault            `json:"fault,omitempty"`
	Oracles    []string          `json:"oracles"`
	EventsDep  bool              `json:"events_dep"`
	Crash      bool              `json:"crash,omitempty"`
	DiskDep    bool              `json:"disk_dep,omitempty"`
	SnapDir    string            `json:"snap_dir,omitempty"`
	SaveFinal  string            `json:"save_final,omitempty"` // copy the disk of the first completed execution here
	SeedDir    string            `json:"seed_dir,omitempty"` // initial disk state (recovery runs)
	Clean      bool              `json:"clean,omitempty"`    // remove _scipipe_tmp* and *.fifo from the seed first
	Pre        map[string]string `json:"pre,omitempty"`      // pre-existing files: path -> content
	PreAudit   bool              `json:"pre_audit,omitempty"`
	ForceOrder map[string]int    `json:"force_order,omitempty"`
	StaleAudit map[string]string `json:"stale_audit,omitempty"` // path -> tag value: a stale <path>.audit.json (tag stale=<value>) is left where the data file is gone
	StaleTmp   []string          `json:"stale_tmp,omitempty"`   // paths: a leftover <path>.audit.json.tmp (a LONGER record, valid JSON) of a run killed between writing it and the rename
	StatFault *ReadFaultSpec `json:"stat_fault,omitempty"` // the Nth successful stat of a file with this suffix answers ENOENT (lagging file system)
	ReadFault *ReadFaultSpec `json:"read_fault,omitempty"` // the Nth successful read of a file with this suffix fails with EMFILE
	XDev  string `json:"xdev,omitempty"` // this directory is on another device: renames across its boundary fail with EXDEV
	PureBuf bool `json:"pure_buf,omitempty"` // replay: the buffer model the recording was made under (vs.PureBuf)
	ClockStepMS int `json:"clock_step_ms,omitempty"` // logical clock step per reading (default 1 ms)
	OpFaultNth int `json:"op_fault_nth,omitempty"` // the n-th FS operation fails with EIO (negative: count only)
	External map[string]string `json:"external,omitempty"` // files created by an outside actor at an arbitrary moment of the run
	TwoWF bool `json:"two_wf,omitempty"` // build the workflow twice (two Workflow objects), run both
	NoRaceReport bool            `json:"no_race_report,omitempty"` // race build used only to make memory accesses scheduling points (races themselves are C12's)
	ForceAll   int               `json:"force_all"`
	Replay     []vs.Choice       `json:"replay,omitempty"`
	MinOrders  int               `json:"min_orders,omitempty"`
	Base       string            `json:"base"`
	ReplayDir  string            `json:"replay_dir"`
	Args       map[string]string `json:"args,omitempty"`
	Race       bool              `json:"race,omitempty"`
	Delete     []string          `json:"delete,omitempty"` // outputs (with their audit files) removed from the seeded directory
	OmitEdge   *int              `json:"omit_edge,omitempty"`    // leave this edge of the spec unconnected
	OmitFromStr string           `json:"omit_fromstr,omitempty"` // "proc.port": do not feed this parameter port
	DropProc   string            `json:"drop_proc,omitempty"`    // remove a consumer process (its upstream out-port dangles)
	RunTo      []string          `json:"runto,omitempty"`
	RunToHow   string            `json:"runtohow,omitempty"`
}

// Violation of a property in one execution.
type Violation struct {
	Prop      string      `json:"prop"`
	Class     string      `json:"class"`
	Detail    string      `json:"detail"`
	Signature string      `json:"signature"`
	Job       string      `json:"job"`
	Replay    string      `json:"replay,omitempty"`
	Choices   []vs.Choice `json:"-"`
	Confirmed int         `json:"confirmed_replays"`
}

// Result of one job.
type Result struct {
	ID           string         `json:"id"`
	Prop         string         `json:"prop"`
	Scenario     string         `json:"scenario"`
	Stats        vs.Stats       `json:"stats"`
	Outcomes     map[string]int `json:"outcomes"`
	NOutcomes    int            `json:"distinct_outcomes"`
	EventOrders  int            `json:"distinct_event_orders"`
	CrashStates  int            `json:"distinct_crash_states"`
	Violations   []Violation    `json:"violations"`
	Samples      []string       `json:"samples"`
	MapSites     []vs.MapSite   `json:"map_sites,omitempty"`
	Races        map[string]int `json:"races,omitempty"`
	PureBuf      bool           `json:"pure_buf,omitempty"` // explored under the pure buffer model (the program polls a buffered channel)
	Extra        map[string]int `json:"extra,omitempty"`
	Error        string         `json:"error,omitempty"`
	Crash        []*vs.CrashState `json:"crash,omitempty"`
	RefOutcome   string         `json:"ref_outcome,omitempty"`
	ExtraInfo    map[string]interface{} `json:"extra_info,omitempty"`
}

// Obs is what the oracles see of one execution.
type Obs struct {
	S       *vs.Sched
	Outcome string
	Events  []string
	Notes   []string
	Tree    map[string]string // disk when the execution ended
	RetTree map[string]string // disk as the main thread saw it right after Run returned (nil: never returned)
	ErrLog  string
	Cmds    []string
}

var errLog bytes.Buffer

// ReadFaultSpec: which read fails
type ReadFaultSpec struct {
	Suffix string `json:"suffix"`
	Match  string `json:"match,omitempty"` // (stat faults) substring of the path instead of a suffix
	Nth    int    `json:"nth"`
	Count  int    `json:"count,omitempty"` // (stat faults) that many consecutive matching looks fail (default 1)
}

type runner struct {
	statCount    int
	opCount      int
	readCount    int
	readFaultHit string
	job   *Job
	spec  *WSpec
	ref   *Ref
	env   *Env
	dir   string
	ret   map[string]string
	res   *Result
	seenV map[string]bool
	orders map[string]bool
	preStat map[string]string
	preRef  *Ref
	seedTree map[string]string
	seedTreeAfterClean map[string]string
	crashViolations []Violation
	protected map[string]string
	protectedHits []string
	savedFinal bool
}

func main() {
	jobFile := flag.String("job", "", "job JSON file")
	flag.Parse()
	data, err := ioutil.ReadFile(*jobFile)
	if err != nil {
		fmt.Println(`{"error":"cannot read job"}`)
		os.Exit(2)
	}
	var job Job
	job.ForceAll = -1
	if err := json.Unmarshal(data, &job); err != nil {
		fmt.Printf(`{"error":%q}`+"\n", err.Error())
		os.Exit(2)
	}
	if pf := os.Getenv("VW_CPUPROFILE"); pf != "" {
		f, _ := os.Create(pf)
		pprof.StartCPUProfile(f)
		defer pprof.StopCPUProfile()
	}
	if job.PureBuf {
		vs.PureBuf = true
	}
	sp.InitLog(ioutil.Discard, ioutil.Discard, ioutil.Discard, ioutil.Discard, ioutil.Discard, &errLog)
	res := &Result{ID: job.ID, Prop: job.Prop, Outcomes: map[string]int{}, Extra: map[string]int{}}
	func() {
		defer func() {
			if r := recover(); r != nil {
				res.Error = fmt.Sprint("worker panic: ", r)
			}
		}()
		switch job.Kind {
		case "", "wf":
			runWorkflowJob(&job, res)
		default:
			if f, ok := specialJobs[job.Kind]; ok {
				vs.RaceMode = job.Race
				f(&job, res)
				reportRaces(&job, res)
			} else {
				res.Error = "unknown job kind " + job.Kind
			}
		}
	}()
	out, _ := json.Marshal(res)
	os.Stdout.Write(out)
	os.Stdout.Write([]byte("\n"))
	if job.Base != "" {
		os.Chdir("/")
		os.RemoveAll(job.Base)
	}
	if res.Error != "" {
		os.Exit(2)
	}
}

// specialJobs: job kinds that are not workflow-scenario explorations (input enumerators etc.)
var specialJobs = map[string]func(*Job, *Result){}

func (r *runner) setup() {
	os.Chdir("/")
	os.RemoveAll(r.dir)
	os.MkdirAll(r.dir, 0777)
	if r.job.SeedDir != "" {
		vs.CopyTree(r.job.SeedDir, r.dir)
	}
	os.Chdir(r.dir)
	vs.Cwd = r.dir
	vs.TmpRoot = filepath.Join(r.job.Base, "tmp")
	os.RemoveAll(vs.TmpRoot)
	os.MkdirAll(vs.TmpRoot, 0777)
	if r.job.SeedDir == "" {
		makeSources(r.spec)
	}
	if r.job.Clean {
		cleanLeftovers(".")
	}
	applyDeletes(r.job.Delete)
	for p, c := range r.job.Pre {
		os.MkdirAll(filepath.Dir(p), 0777)
		os.WriteFile(p, []byte(c), 0644)
		if r.job.PreAudit {
			ap := p
			if d := dirOutOf(r.ref, p); d != "" {
				ap = d // the audit file of a directory output accompanies the directory
			}
			os.WriteFile(ap+".audit.json", []byte(`{"ID":"preexisting","ProcessName":"pre","Command":"","Params":{},"Tags":{},"StartTime":"0001-01-01T00:00:00Z","FinishTime":"0001-01-01T00:00:00Z","ExecTimeNS":-1,"OutFiles":{},"Upstream":{}}`), 0644)
		}
	}
	for p, v := range r.job.StaleAudit {
		os.MkdirAll(filepath.Dir(p), 0777)
		os.WriteFile(p+".audit.json", []byte(`{"ID":"stale","ProcessName":"earlier","Command":"earlier run","Params":{},"Tags":{"stale":"`+v+`"},"StartTime":"0001-01-01T00:00:00Z","FinishTime":"0001-01-01T00:00:00Z","ExecTimeNS":-1,"OutFiles":{},"Upstream":{}}`), 0644)
	}
	for _, p := range r.job.StaleTmp {
		os.MkdirAll(filepath.Dir(p), 0777)
		os.WriteFile(p+".audit.json.tmp", []byte(`{"ID":"killed","ProcessName":"earlier","Command":"`+strings.Repeat("earlier attempt ", 200)+`","Params":{},"Tags":{},"StartTime":"0001-01-01T00:00:00Z","FinishTime":"0001-01-01T00:00:00Z","ExecTimeNS":-1,"OutFiles":{},"Upstream":{}}`), 0644)
	}
	r.preStat = statAll(".")
	if r.job.SeedDir != "" && r.seedTree == nil {
		r.seedTree = vs.ReadTree(r.job.SeedDir)
		r.seedTreeAfterClean = vs.ReadTree(".")
	}
	r.crashViolations = nil
	r.protectedHits = nil
	r.readCount, r.readFaultHit = 0, ""
	r.statCount = 0
	r.opCount = 0
	errLog.Reset()
	r.env.reset()
	r.ret = nil
}

func cleanLeftovers(root string) {
	filepath.Walk(root, func(p string, fi os.FileInfo, err error) error {
		if err != nil || p == root {
			return nil
		}
		b := filepath.Base(p)
		if fi.IsDir() && strings.HasPrefix(b, "_scipipe_tmp") {
			os.RemoveAll(p)
			return filepath.SkipDir
		}
		if strings.HasSuffix(b, ".fifo") {
			os.Remove(p)
		}
		return nil
	})
}

// statAll: path -> "inode:mtime_ns:size" of every regular file (log/ excluded)
func statAll(root string) map[string]string {
	m := map[string]string{}
	filepath.Walk(root, func(p string, fi os.FileInfo, err error) error {
		if err != nil || fi.IsDir() {
			return nil
		}
		rel, _ := filepath.Rel(root, p)
		if strings.HasPrefix(rel, "log/") {
			return nil
		}
		m[rel] = statString(fi)
		return nil
	})
	return m
}

func (r *runner) body() {
	if r.spec.Direct != "" {
		r.directBody()
		return
	}
	b := r.spec.build(r.env)
	if len(r.job.External) > 0 {
		// environment: somebody else (another program, the user) creates these files at an arbitrary
		// moment of the run - one controlled thread per file, scheduled like any other
		paths := []string{}
		for p := range r.job.External {
			paths = append(paths, p)
		}
		sort.Strings(paths)
		for _, p := range paths {
			p, c := p, r.job.External[p]
			vs.Go(func() { vs.FSWriteFile(p, []byte(c), 0644) })
		}
	}
	if r.job.TwoWF {
		// a second workflow object is constructed while goroutines of the first one exist
		// (parameter feeders start at construction), then both are run one after the other
		b2 := r.spec.build(r.env)
		r.spec.run(b)
		r.spec.run(b2)
		vs.Event("RET")
		r.ret = vs.Snapshot()
		vs.Note("COMPLETED")
		return
	}
	r.spec.run(b)
	vs.Event("RET")
	r.ret = vs.Snapshot()
	vs.Note("COMPLETED")
}

func (r *runner) observe(s *vs.Sched) *Obs {
	o := &Obs{S: s, Outcome: s.Outcome, Events: s.EventList(), Notes: s.NoteList(), Tree: vs.ReadTree("."), RetTree: r.ret, ErrLog: errLog.String(), Cmds: r.env.Cmds}
	return o
}

func runWorkflowJob(job *Job, res *Result) {
	if job.Base == "" {
		job.Base = fmt.Sprintf("/dev/shm/vw-%d", os.Getpid())
	}
	cwdPrefix = filepath.Join(job.Base, "e") + "/"
	job.Scen.Cwd = filepath.Join(job.Base, "e")
	spec := job.Spec
	if spec == nil {
		spec = catalog(job.Scen)
		res.Scenario = job.Scen.String()
		if job.Scen.RevSrc {
			for i := range spec.Procs {
				if spec.Procs[i].Kind == "src" {
					it := spec.Procs[i].Items
					for a, b := 0, len(it)-1; a < b; a, b = a+1, b-1 {
						it[a], it[b] = it[b], it[a]
					}
				}
			}
		}
		if job.Scen.AbsSrc {
			for i := range spec.Procs {
				if spec.Procs[i].Kind == "src" {
					for k, it := range spec.Procs[i].Items {
						spec.Procs[i].Items[k] = filepath.Join(job.Scen.Cwd, it)
					}
				}
			}
		}
		if len(job.RunTo) > 0 {
			spec.RunTo = job.RunTo
			spec.RunToHow = job.RunToHow
			res.Scenario += "/runto=" + strings.Join(job.RunTo, "+")
		}
	} else {
		res.Scenario = spec.Name
	}
	if job.OmitEdge != nil {
		i := *job.OmitEdge
		e := spec.Edges[i]
		spec.Edges = append(append([]Edge{}, spec.Edges[:i]...), spec.Edges[i+1:]...)
		res.Scenario += fmt.Sprintf("/unconnected=%s.%s<-%s.%s", e.To, e.ToPort, e.From, e.FromPort)
		if job.Args["omit_how"] == "disconnect" && !e.Param {
			spec.UndoEdges = append(spec.UndoEdges, e)
			res.Scenario += "/connected-then-disconnected"
		}
	}
	if job.OmitFromStr != "" {
		f := strings.SplitN(job.OmitFromStr, ".", 2)
		if ps := spec.proc(f[0]); ps != nil {
			delete(ps.FromStr, f[1])
		}
		res.Scenario += "/unfed=" + job.OmitFromStr
	}
	if job.DropProc != "" {
		np := []ProcSpec{}
		for _, ps := range spec.Procs {
			if ps.Name != job.DropProc {
				np = append(np, ps)
			}
		}
		spec.Procs = np
		ne := []Edge{}
		for _, e := range spec.Edges {
			if e.From != job.DropProc && e.To != job.DropProc {
				ne = append(ne, e)
			}
		}
		spec.Edges = ne
		res.Scenario += "/dropped=" + job.DropProc
	}
	if job.Fault != nil {
		res.Scenario += fmt.Sprintf("/fault=%s:%s:%s", job.Fault.Proc, job.Fault.Match, job.Fault.Kind)
	}
	if len(job.StaleAudit) > 0 {
		res.Scenario += "/stale-audit-files"
	}
	if len(job.StaleTmp) > 0 {
		res.Scenario += "/leftover-audit-temp-files"
	}
	if job.StatFault != nil {
		res.Scenario += fmt.Sprintf("/stat-fault=%s%s:%d+%d", job.StatFault.Suffix, job.StatFault.Match, job.StatFault.Nth, job.StatFault.Count)
	}
	if job.Base == "" {
		job.Base = fmt.Sprintf("/dev/shm/vw-%d", os.Getpid())
	}
	r := &runner{job: job, spec: spec, env: &Env{Spec: spec, Fault: job.Fault}, dir: filepath.Join(job.Base, "e"), res: res, seenV: map[string]bool{}, orders: map[string]bool{}}
	r.ref = spec.reference()
	refCache[spec] = r.ref
	if job.Args["list_outputs"] != "" {
		units := []map[string]string{}
		for _, t := range r.ref.Tasks {
			if len(t.Outs) == 0 {
				continue
			}
			u := map[string]string{}
			for _, p := range t.Outs {
				if parts, isDir := r.ref.DirOuts[p]; isDir {
					// a directory output pre-exists as the directory with the files it holds
					for _, f := range parts {
						u[f] = r.ref.Files[f]
					}
					continue
				}
				u[p] = r.ref.Files[p]
			}
			units = append(units, u)
			if len(spec.PartialUnits) > 0 && len(t.Outs) > len(spec.PartialUnits) {
				pu := map[string]string{}
				for _, port := range spec.PartialUnits {
					if p, ok := t.Outs[port]; ok {
						pu[p] = r.ref.Files[p]
					}
				}
				units = append(units, pu)
			}
		}
		res.ExtraInfo = map[string]interface{}{"task_outputs": units}
	}
	vs.EventsDependent = job.EventsDep
	vs.CrashMode = job.Crash
	vs.DiskDependent = job.DiskDep
	vs.SnapDir = job.SnapDir
	vs.RaceMode = job.Race
	vs.ExecMode = "sim"
	vs.SimExec = r.env.simExec
	vs.CrashHook = r.crashHook
	vs.FSHook = r.fsHook
	// everything the hooks need is computed BEFORE the exploration: a lazily cached map iteration
	// inside a hook would be a map-range site of the first execution only (site ordinals shift)
	if len(job.Pre) > 0 && job.SeedDir == "" {
		r.protectedFiles()
	}
	vs.ClockStep = time.Millisecond
	if job.ClockStepMS > 0 {
		vs.ClockStep = time.Duration(job.ClockStepMS) * time.Millisecond
	}
	vs.RenameFault = nil
	if job.XDev != "" {
		// the directory job.XDev (relative to the working directory) is on "another device":
		// a rename across its boundary fails with EXDEV, as rename(2) does
		xd := filepath.Join(r.dir, job.XDev) + "/"
		vs.RenameFault = func(a, b string) error {
			abs := func(p string) string {
				if !filepath.IsAbs(p) {
					p = filepath.Join(r.dir, p)
				}
				return filepath.Clean(p) + "/"
			}
			if strings.HasPrefix(abs(a), xd) != strings.HasPrefix(abs(b), xd) {
				vs.Note("EXDEV:" + normPath(b))
				return &os.LinkError{Op: "rename", Old: a, New: b, Err: syscall.EXDEV}
			}
			return nil
		}
	}
	vs.OpFault = nil
	if job.OpFaultNth != 0 {
		// OpFaultNth > 0: the n-th file-system operation of the run fails with EIO; < 0: only count
		vs.OpFault = func(op, path string) error {
			r.opCount++
			if r.opCount == job.OpFaultNth {
				vs.Note("OPFAULT:" + op + ":" + normPath(path))
				return &os.PathError{Op: op, Path: path, Err: syscall.EIO}
			}
			return nil
		}
	}
	vs.StatFault = nil
	if job.StatFault != nil {
		vs.StatFault = func(p string) error {
			if !strings.HasSuffix(p, job.StatFault.Suffix) || !strings.Contains(normPath(p), job.StatFault.Match) || isTemp(normPath(p)) {
				return nil
			}
			r.statCount++
			cnt := job.StatFault.Count
			if cnt < 1 {
				cnt = 1
			}
			if r.statCount >= job.StatFault.Nth && r.statCount < job.StatFault.Nth+cnt {
				vs.Note("STATFAULT:" + normPath(p))
				return &os.PathError{Op: "stat", Path: p, Err: syscall.ENOENT}
			}
			return nil
		}
	}
	vs.ReadFault = nil
	if job.ReadFault != nil {
		vs.ReadFault = func(p string) error {
			if !strings.HasSuffix(p, job.ReadFault.Suffix) {
				return nil
			}
			r.readCount++
			if r.readCount == job.ReadFault.Nth {
				r.readFaultHit = p
				vs.Note("READFAULT:" + normPath(p))
				return &os.PathError{Op: "open", Path: p, Err: syscall.EMFILE}
			}
			return nil
		}
	}
	if job.ForceOrder != nil {
		vs.ForceOrder = job.ForceOrder
	}
	vs.ForceAll = job.ForceAll
	deadline := time.Time{}
	if job.Budget > 0 {
		deadline = time.Now().Add(time.Duration(job.Budget * float64(time.Second)))
	}
	sites := map[string]vs.MapSite{}
	nexec := 0
	visit := func(s *vs.Sched) bool {
		o := r.observe(s)
		if strings.Contains(o.Outcome, "replay divergence") || strings.Contains(o.Outcome, "panic:vs:") || strings.HasPrefix(o.Outcome, "unsupported:") {
			res.Error = "engine error: " + o.Outcome
			return false
		}
		key := outcomeKey(o)
		res.Outcomes[key]++
		nexec++
		if job.Race && len(vs.Races) > 0 && res.Extra["first_race_at_execution"] == 0 {
			res.Extra["first_race_at_execution"] = nexec
		}
		r.orders[strings.Join(o.Events, ";")] = true
		for _, ms := range s.MapSites() {
			sites[ms.ID] = ms
		}
		if len(res.Samples) < 3 {
			res.Samples = append(res.Samples, fmt.Sprintf("schedule[%s] events[%s] outcome[%s]", s.ScheduleString(40), strings.Join(o.Events, ";"), o.Outcome))
		}
		for _, v := range r.check(o) {
			r.report(v, s)
		}
		if job.SaveFinal != "" && o.Outcome == "" && !r.savedFinal {
			r.savedFinal = true
			os.RemoveAll(job.SaveFinal)
			vs.CopyTree(".", job.SaveFinal)
		}
		return len(res.Violations) < 20
	}
	switch job.Mode {
	case "dpor":
		res.Stats = vs.ExploreDPOR(r.setup, r.body, visit, deadline)
	case "delay":
		res.Stats = vs.ExploreNaive(r.setup, r.body, visit, false, job.Delay, deadline)
	case "single":
		s := vs.RunOnce(r.setup, r.body, nil)
		visit(s)
		res.Stats = vs.Stats{Mode: "single", Execs: 1, Transitions: s.StepCount(), Nodes: s.StepCount(), Closed: true}
	case "replay":
		s := vs.Replay(r.setup, r.body, job.Replay)
		visit(s)
		res.Stats = vs.Stats{Mode: "replay", Execs: 1, Transitions: s.StepCount(), Nodes: s.StepCount(), Closed: true}
	default:
		res.Error = "unknown mode " + job.Mode
	}
	if job.Mode == "dpor" && unreducedOnly(res.Error) {
		// a construct the reduced explorer is not validated for: the unreduced enumeration decides,
		// within a delay bound (reported as not closed)
		res.Error = ""
		res.Violations = nil
		res.Outcomes = map[string]int{}
		r.seenV = map[string]bool{}
		nexec = 0
		res.Extra["unreduced_fallback_delay_bound"] = 2
		res.Stats = vs.ExploreNaive(r.setup, r.body, visit, false, 2, deadline)
		res.Stats.Closed = false
	}
	res.NOutcomes = len(res.Outcomes)
	res.PureBuf = vs.PureBuf
	if job.OpFaultNth != 0 {
		res.Extra["fs_ops_last_execution"] = r.opCount
	}
	res.EventOrders = len(r.orders)
	res.CrashStates = len(vs.Digests)
	for _, ms := range sites {
		res.MapSites = append(res.MapSites, ms)
	}
	sort.Slice(res.MapSites, func(i, j int) bool { return res.MapSites[i].ID < res.MapSites[j].ID })
	if job.Crash {
		for _, cs := range vs.DigestInfo {
			res.Crash = append(res.Crash, cs)
		}
		sort.Slice(res.Crash, func(i, j int) bool { return res.Crash[i].ID < res.Crash[j].ID })
	}
	reportRaces(job, res)
	// oracles over the whole exploration
	r.checkExploration()
	if len(res.Outcomes) > 40 {
		// keep the result small
		n := 0
		for k := range res.Outcomes {
			if n >= 40 {
				delete(res.Outcomes, k)
			}
			n++
		}
	}
}

// outcomeKey: the normalised terminal outcome of an execution (exit status, executed-task
// multiset, data files with contents; audit files only by name).
func outcomeKey(o *Obs) string {
	ev := []string{}
	for _, e := range o.Events {
		if strings.HasPrefix(e, "S:") {
			ev = append(ev, e)
		}
	}
	sort.Strings(ev)
	files := []string{}
	for p, c := range o.Tree {
		if c == "<dir>" {
			continue
		}
		if strings.HasSuffix(p, ".audit.json") || strings.HasSuffix(p, ".audit.json.tmp") {
			files = append(files, p)
		} else {
			files = append(files, p+"="+c)
		}
	}
	sort.Strings(files)
	oc := o.Outcome
	if strings.HasPrefix(oc, "panic:") && len(oc) > 80 {
		oc = oc[:80]
	}
	return oc + " | " + strings.Join(ev, " ") + " | " + strings.Join(files, " ")
}

func (r *runner) report(v Violation, s *vs.Sched) {
	v.Job = r.job.ID
	r.normalise(&v)
	if r.seenV[v.Signature] {
		return
	}
	r.seenV[v.Signature] = true
	if s != nil && r.job.Mode != "replay" {
		// determinism is proved, not assumed: re-execute from the recorded choices
		rec := s.ReplayChoices()
		for i := 0; i < 3; i++ {
			s2 := vs.Replay(r.setup, r.body, rec)
			o2 := r.observe(s2)
			if strings.Contains(o2.Outcome, "replay divergence") {
				r.res.Error = "replay divergence while confirming a violation: " + o2.Outcome
				return
			}
			same := false
			for _, v2 := range r.check(o2) {
				r.normalise(&v2)
				if v2.Signature == v.Signature {
					same = true
				}
			}
			if same {
				v.Confirmed++
			}
		}
		if v.Confirmed < 3 {
			r.res.Error = fmt.Sprintf("violation %s did not reproduce on replay (%d/3)", v.Signature, v.Confirmed)
			return
		}
		if r.job.ReplayDir != "" {
			os.MkdirAll(r.job.ReplayDir, 0777)
			j := *r.job
			j.Mode = "replay"
			j.PureBuf = vs.PureBuf
			j.Replay = rec
			j.Base = ""
			j.Budget = 0
			fn := filepath.Join(r.job.ReplayDir, fmt.Sprintf("%s-%x.json", sanitize(r.job.ID), hash32(v.Signature)))
			b, _ := json.MarshalIndent(map[string]interface{}{"job": j, "violation": v, "events": s.EventList(), "schedule": s.ScheduleString(0)}, "", " ")
			os.WriteFile(fn, b, 0644)
			v.Replay = fn
		}
	}
	r.res.Violations = append(r.res.Violations, v)
}

func (r *runner) normalise(v *Violation) {
	// scipipe's own log lines carry the wall-clock time: not part of what is compared
	v.Detail = logStamp.ReplaceAllString(v.Detail, "")
	v.Signature = logStamp.ReplaceAllString(v.Signature, "")
	if v.Prop != r.job.Prop {
		// an auxiliary oracle of another property fired inside this property's check
		v.Class = strings.ToLower(v.Prop) + ":" + v.Class
		v.Prop = r.job.Prop
	}
	if v.Signature == "" {
		v.Signature = r.res.Scenario + "|" + v.Class + "|" + v.Detail
	}
}

func sanitize(s string) string {
	return strings.Map(func(r rune) rune {
		if r >= 'a' && r <= 'z' || r >= 'A' && r <= 'Z' || r >= '0' && r <= '9' || r == '-' || r == '_' || r == '.' {
			return r
		}
		return '_'
	}, s)
}

func hash32(s string) uint32 {
	var h uint32 = 2166136261
	for i := 0; i < len(s); i++ {
		h ^= uint32(s[i])
		h *= 16777619
	}
	return h
}

// reportRaces: the data races the happens-before monitor saw in this job's executions (race build)
// raceShape: the known AddTag race needs ONE out-port feeding a tagging component AND a sibling
// consumer; scenarios of that shape are marked, so that the known finding covers them only.
func raceShape(job *Job) string {
	if job.Scen.Graph == "g14" || job.Scen.Graph == "g14c" {
		return "|out-port-feeds-tagger-and-sibling"
	}
	return ""
}

func reportRaces(job *Job, res *Result) {
	if job.Race && !job.NoRaceReport {
		res.Races = vs.Races
		keys := []string{}
		for k := range vs.Races {
			keys = append(keys, k)
		}
		sort.Strings(keys)
		for _, k := range keys {
			v := Violation{Prop: "C12", Class: "data-race", Detail: fmt.Sprintf("unsynchronised conflicting accesses %s (seen in %d executions of %s)", k, vs.Races[k], res.Scenario), Signature: "race|" + k + raceShape(job), Job: job.ID}
			if job.ReplayDir != "" {
				os.MkdirAll(job.ReplayDir, 0777)
				j := *job
				j.Mode = "replay"
				j.PureBuf = vs.PureBuf
				j.Replay = vs.RaceInfo[k]
				j.Base = ""
				j.Budget = 0
				fn := filepath.Join(job.ReplayDir, fmt.Sprintf("%s-%x.json", sanitize(job.ID), hash32(v.Signature)))
				b, _ := json.MarshalIndent(map[string]interface{}{"job": j, "violation": v}, "", " ")
				os.WriteFile(fn, b, 0644)
				v.Replay = fn
			}
			res.Violations = append(res.Violations, v)
		}
	}
}
