//go:build !verif

package main

import "sync"

// native barrier (real goroutines)
type barrier struct {
	n    int
	want int
	ch   chan struct{}
}

var barrierMu sync.Mutex

func (e *Env) barrierWait(name string, want int) {
	barrierMu.Lock()
	b := e.Barriers[name]
	if b == nil {
		b = &barrier{want: want, ch: make(chan struct{})}
		e.Barriers[name] = b
	}
	b.n++
	last := b.n == b.want
	barrierMu.Unlock()
	if last {
		close(b.ch)
		return
	}
	<-b.ch
}
