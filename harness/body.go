package main

import (
	"errors"
	"fmt"
	"os"
	"path/filepath"
	"regexp"
	"sort"
	"strings"

	sp "github.com/scipipe/scipipe"
	"vs"
)

// Fault: make the task of process Proc whose key contains Match fail in way Kind.
//
//	exit-before   non-zero exit before anything was written
//	exit-mid      non-zero exit after half of the first output was written
//	panic-mid     (Go-function bodies) a run-time panic after half of the first output was written
//	exit-after    non-zero exit after all outputs were written completely
//	killed        killed by a signal after half of the first output
//	missing       exit 0 without producing the first declared output
//	missing-last  exit 0 without producing the last declared output (the others are complete)
type Fault struct {
	Proc  string `json:"proc"`
	Match string `json:"match"`
	Kind  string `json:"kind"`
}

// Env is the per-job environment shared by the task bodies.
type Env struct {
	Spec     *WSpec
	Fault    *Fault
	Barriers map[string]*barrier
	Cmds     []string          // command lines seen at the exec seam in this execution
	lastCmd  string
	fullCmd  string
	dirMode  bool
	CmdByKey map[string]string // task key -> the command scipipe handed over (between "cd tmp &&" and "&& cd ..")
}

func (e *Env) reset() {
	e.Barriers = map[string]*barrier{}
	e.Cmds = nil
	e.CmdByKey = map[string]string{}
}

func (e *Env) faultFor(proc, key string) string {
	if e.Fault != nil && e.Fault.Proc == proc && strings.Contains(key, e.Fault.Match) {
		return e.Fault.Kind
	}
	return ""
}

// writeOutputs: the common part of both body kinds. outs: port -> path to write (inside the
// task's temp dir); the data is written in two chunks with a scheduling / crash point between.
func (e *Env) writeOutputs(proc, key string, outs map[string]string, ins map[string]string, params map[string]string) error {
	fault := e.faultFor(proc, key)
	names := make([]string, 0, len(outs))
	for k := range outs {
		names = append(names, k)
	}
	sort.Strings(names)
	if fault == "exit-before" {
		vs.Event("F:" + key)
		return vs.RealExitError(1)
	}
	for i, port := range names {
		data := []byte(contentOf(proc, port, ins, params))
		if (i == 0 && fault == "missing") || (i == len(names)-1 && fault == "missing-last") {
			continue
		}
		half := len(data) / 2
		if ps := e.Spec.proc(proc); ps != nil && ps.AppendOut {
			// echo first-half >> out; echo second-half >> out
			for _, part := range [][]byte{data[:half], data[half:]} {
				cur, _ := os.ReadFile(outs[port])
				if err := vs.FSWriteFile(outs[port], append(cur, part...), 0644); err != nil {
					return err
				}
			}
			continue
		}
		if ps := e.Spec.proc(proc); ps != nil && ps.LinkOut {
			// tool --out /elsewhere/store/x && ln -s /elsewhere/store/x out
			store := filepath.Join(filepath.Dir(strings.TrimSuffix(cwdPrefix, "/")), "store")
			os.MkdirAll(store, 0777)
			target := filepath.Join(store, proc+"-"+filepath.Base(outs[port]))
			if err := os.WriteFile(target, data, 0644); err != nil {
				return err
			}
			os.Remove(outs[port])
			if err := os.Symlink(target, outs[port]); err != nil {
				return err
			}
			continue
		}
		if err := vs.FSWriteFile(outs[port], data[:half], 0644); err != nil {
			return err
		}
		if i == 0 && fault == "panic-mid" {
			// a run-time panic inside the task's Go function after half of the output was written
			vs.Event("F:" + key)
			panic("injected-panic: index out of range [1] with length 1")
		}
		if i == 0 && (fault == "exit-mid" || fault == "killed") {
			vs.Event("F:" + key)
			if fault == "killed" {
				return vs.RealExitError(-1)
			}
			return vs.RealExitError(1)
		}
		if err := vs.FSWriteFile(outs[port], data, 0644); err != nil {
			return err
		}
	}
	if fault == "exit-after" {
		vs.Event("F:" + key)
		return vs.RealExitError(1)
	}
	return nil
}

// funcBody: CustomExecute body of a "func" process.
func (e *Env) funcBody(ps *ProcSpec) func(t *sp.Task) {
	return func(t *sp.Task) {
		ins := map[string]string{}
		inPaths := map[string]string{}
		for port, ip := range t.InIPs {
			if _, joined := ps.Join[port]; joined {
				continue
			}
			inPaths[port] = ip.Path()
		}
		key := taskKey(ps.Name, inPaths, t.Params)
		vs.Event("S:" + key)
		atEnd := false
		for _, m := range ps.BarrierEnd {
			if strings.Contains(key, m) {
				atEnd = true
			}
		}
		if ps.Barrier != "" && barrierMember(ps, key) && !atEnd {
			e.barrierWait(ps.Barrier, barrierSize(e.Spec, ps.Barrier))
		}
		for port, path := range inPaths {
			if ps.NoRead {
				ins[port] = refContent(e.Spec, path)
				continue
			}
			// the documented way for a Go function to get at its input: FileIP.Read()
			ins[port] = string(t.InIP(port).Read())
		}
		if ps.WriteIdiom {
			// docs: "task.OutIP("out").Write(data)" inside CustomExecute
			for port, oip := range t.OutIPs {
				oip.Write([]byte(contentOf(ps.Name, port, ins, t.Params)))
			}
			vs.Event("E:" + key)
			return
		}
		outs := map[string]string{}
		for port, oip := range t.OutIPs {
			outs[port] = filepath.Join(t.TempDir(), oip.TempPath())
		}
		if err := e.writeOutputs(ps.Name, key, outs, ins, t.Params); err != nil {
			// a Go function reports failure the way the library's own helpers do
			sp.Failf("task %s failed: %v", key, err)
		}
		if ps.Barrier != "" && barrierMember(ps, key) && atEnd {
			// a slow task: its body ends only once its partners have come to the barrier
			e.barrierWait(ps.Barrier, barrierSize(e.Spec, ps.Barrier))
		}
		vs.Event("E:" + key)
	}
}

var refCache = map[*WSpec]*Ref{}

func refContent(w *WSpec, path string) string {
	r := refCache[w]
	if r == nil {
		r = w.reference()
		refCache[w] = r
	}
	return r.Files[path]
}

// barrierMember: does the task with this key take part in its process' barrier (all tasks, unless
// BarrierOnly names the inputs of the participating ones)
func barrierMember(ps *ProcSpec, key string) bool {
	if len(ps.BarrierOnly) == 0 {
		return true
	}
	for _, m := range ps.BarrierOnly {
		if strings.Contains(key, m) {
			return true
		}
	}
	return false
}

func barrierSize(w *WSpec, name string) int {
	r := refCache[w]
	if r == nil {
		r = w.reference()
		refCache[w] = r
	}
	n := 0
	for _, t := range r.Tasks {
		if p := w.proc(t.Proc); p != nil && p.Barrier == name && barrierMember(p, t.Key) {
			n++
		}
	}
	return n
}

// ---------------------------------------------------------------- command simulator
//
// scipipe hands   bash -c "cd <tmp> && <cmd> && cd .."   to the exec seam. The simulator
// understands the harness' own mini-commands and performs them through the FS seam:
//
//	vcmd NAME port=path... -- port=path... -- param=value...
//
// paths are relative to the simulated working directory.

func (e *Env) simExec(name string, args []string) ([]byte, error, bool) {
	if (name == "mv" || name == "cp") && len(args) == 2 {
		// mv / cp of one file (mv across devices = copy + unlink): the destination is created and
		// filled step by step, which the crash points of the FS seam see
		d, err := vs.FSReadFile(args[0])
		if err != nil {
			return []byte(err.Error()), vs.RealExitError(1), true
		}
		if err := vs.FSWriteFile(args[1], d, 0644); err != nil {
			return []byte(err.Error()), vs.RealExitError(1), true
		}
		if name == "mv" {
			vs.FSRemove(args[0])
		}
		return nil, nil, true
	}
	if name != "bash" || len(args) != 2 || args[0] != "-c" {
		return nil, nil, false
	}
	line := args[1]
	e.Cmds = append(e.Cmds, line)
	// the command scipipe handed over: what stands between "cd <tmp> && " and " && cd .."
	e.fullCmd = strings.TrimSuffix(line, " && cd ..")
	if i := strings.Index(e.fullCmd, " && "); strings.HasPrefix(e.fullCmd, "cd ") && i > 0 {
		e.fullCmd = e.fullCmd[i+4:]
	}
	cwd := "."
	// bash list semantics: statements separated by newlines run one after the other whatever their
	// status; the status of the script is the status of the LAST statement; inside a statement the
	// parts of an && chain stop at the first failure
	stmts := strings.Split(line, "\n")
	if len(stmts) > 1 {
		var lastOut []byte
		var lastErr error
		for _, st := range stmts {
			if strings.TrimSpace(st) == "" {
				continue
			}
			out, err, ok := e.simChain(st, &cwd)
			if !ok {
				return nil, nil, false
			}
			lastOut, lastErr = out, err
		}
		return lastOut, lastErr, true
	}
	return e.simChain(line, &cwd)
}

// simChain runs one && chain of mini-commands.
func (e *Env) simChain(line string, cwdp *string) ([]byte, error, bool) {
	cwd := *cwdp
	defer func() { *cwdp = cwd }()
	for _, part := range strings.Split(line, " && ") {
		f := strings.Fields(part)
		if len(f) > 1 && f[0] == "env" { // "env CMD ARGS": a launcher in front of the command
			f = f[1:]
			part = strings.TrimPrefix(strings.TrimSpace(part), "env ")
		}
		if len(f) == 0 {
			continue
		}
		switch f[0] {
		case "cd":
			if len(f) != 2 {
				return []byte("cd: bad args"), vs.RealExitError(1), true
			}
			nd := filepath.Join(cwd, f[1])
			if fi, err := vs.FSStat(nd); err != nil || !fi.IsDir() {
				return []byte("cd: no such directory " + nd), vs.RealExitError(1), true
			}
			cwd = nd
		case "vdir":
			e.lastCmd = part
			e.dirMode = true
			err := e.vcmd(cwd, f[1:])
			e.dirMode = false
			if err != nil {
				return []byte(err.Error()), err, true
			}
		case "vcmd":
			e.lastCmd = part
			if err := e.vcmd(cwd, f[1:]); err != nil {
				return []byte(err.Error()), err, true
			}
		case "vjoin":
			if err := e.vjoin(cwd, part); err != nil {
				return []byte(err.Error()), err, true
			}
		case "true":
		case "false":
			return nil, vs.RealExitError(1), true
		default:
			return nil, nil, false
		}
	}
	return nil, nil, true
}

func (e *Env) vcmd(cwd string, f []string) error {
	if len(f) < 1 {
		return errors.New("vcmd: missing name")
	}
	proc := f[0]
	sect := 0
	outs, insP, params := map[string]string{}, map[string]string{}, map[string]string{}
	for _, a := range f[1:] {
		if a == "--" {
			sect++
			continue
		}
		kv := strings.SplitN(a, "=", 2)
		if len(kv) != 2 {
			return fmt.Errorf("vcmd: bad argument %q", a)
		}
		switch sect {
		case 0:
			outs[kv[0]] = kv[1]
		case 1:
			insP[kv[0]] = kv[1]
		default:
			params[kv[0]] = kv[1]
		}
	}
	// the task key is built from the final input paths (as the reference model does)
	finalIn := map[string]string{}
	for port, p := range insP {
		finalIn[port] = filepath.Clean(resolve(cwd, p))
	}
	key := taskKey(proc, finalIn, params)
	e.CmdByKey[key] = e.lastCmd
	if e.fullCmd != "" && strings.Contains(e.fullCmd, e.lastCmd) && !strings.Contains(strings.Replace(e.fullCmd, e.lastCmd, "", 1), "vcmd ") {
		e.CmdByKey[key] = e.fullCmd // the whole command (launcher prefix, suffix) when it holds this one task command
	}
	vs.Event("S:" + key)
	var ps *ProcSpec
	if e.Spec != nil {
		ps = e.Spec.proc(proc)
	}
	if ps != nil && ps.Barrier != "" && barrierMember(ps, key) {
		e.barrierWait(ps.Barrier, barrierSize(e.Spec, ps.Barrier))
	}
	ins := map[string]string{}
	for port, p := range insP {
		if fi, serr := vs.FSStat(resolve(cwd, p)); serr == nil && fi.IsDir() {
			d1, err1 := vs.FSReadFile(resolve(cwd, p) + "/part1")
			d2, err2 := vs.FSReadFile(resolve(cwd, p) + "/part2")
			if err1 != nil || err2 != nil {
				return fmt.Errorf("vcmd %s: input directory %s is incomplete", proc, p)
			}
			ins[port] = string(d1) + "+" + string(d2)
			continue
		}
		d, err := vs.FSReadFile(resolve(cwd, p))
		if err != nil {
			return fmt.Errorf("vcmd %s: cannot read %s: %v", proc, p, err)
		}
		ins[port] = string(d)
	}
	outPaths := map[string]string{}
	for port, p := range outs {
		outPaths[port] = resolve(cwd, p)
	}
	if e.dirMode {
		// the output is a directory holding two files
		for port, dir := range outPaths {
			if err := vs.FSMkdirAll(dir, 0777); err != nil {
				return err
			}
			for _, part := range []string{"part1", "part2"} {
				if err := vs.FSWriteFile(dir+"/"+part, []byte(contentOf(proc, port+"/"+part, ins, params)), 0644); err != nil {
					return err
				}
			}
		}
		vs.Event("E:" + key)
		return nil
	}
	if err := e.writeOutputs(proc, key, outPaths, ins, params); err != nil {
		return err
	}
	vs.Event("E:" + key)
	return nil
}

var vjoinRe = regexp.MustCompile(`^vjoin (\S+) (\[.*\])$`)
var vjoinGroupRe = regexp.MustCompile(`\[([^\]]*)\]`)

// vjoin OUT [JOINED] [JOINED2]: the consumer of joined in-ports. It notes the raw argument
// string of every joined port, checks that every member resolves from its working directory
// (when the placeholder carries no relocating modifier) and writes the members' contents to OUT.
func (e *Env) vjoin(cwd string, part string) error {
	m := vjoinRe.FindStringSubmatch(part)
	if m == nil {
		return fmt.Errorf("vjoin: cannot parse %q", part)
	}
	ps := e.Spec.proc("j")
	vs.Event("S:j[]")
	content := ""
	groups := vjoinGroupRe.FindAllStringSubmatch(m[2], -1)
	for gi, g := range groups {
		raw := g[1]
		sep := ps.JoinSep
		port := "x"
		if gi == 1 {
			sep, port = ps.JoinSep2, "y"
			if ps.JoinHdr {
				sep, port = "\x00", "hdr"
			}
		}
		vs.Note("joined:" + port + ":" + raw)
		if ps.JoinMod == "" && raw != "" {
			for _, p := range strings.Split(raw, sep) {
				d, err := vs.FSReadFile(resolve(cwd, p))
				if err != nil {
					return fmt.Errorf("vjoin: member %q does not resolve from %s: %v", p, cwd, err)
				}
				content += string(d) + "\n"
			}
		}
	}
	if ps.JoinMod != "" {
		content = refContent(e.Spec, "joined.txt")
	}
	if err := vs.FSWriteFile(resolve(cwd, m[1]), []byte(content), 0644); err != nil {
		return err
	}
	vs.Event("E:j[]")
	return nil
}

// resolve a path the way a shell running in cwd would
func resolve(cwd, p string) string {
	if filepath.IsAbs(p) {
		return p
	}
	return filepath.Join(cwd, p)
}

// makeSources creates the source files of a spec in the current directory (plain os calls:
// this happens before the execution starts).
func makeSources(w *WSpec) {
	for _, d := range w.MkDirs {
		os.MkdirAll(d, 0777)
	}
	for f, c := range w.PreFiles {
		os.WriteFile(f, []byte(c), 0644)
	}
	for n, t := range w.Symlinks {
		os.Symlink(t, n)
	}
	for _, f := range w.SourceFiles() {
		os.MkdirAll(filepath.Dir(f), 0777)
		c := f
		if sc, ok := w.SourceContent[f]; ok {
			c = sc
		}
		os.WriteFile(f, []byte(c), 0644)
	}
}
