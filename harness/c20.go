//go:build verif

package main

import (
	"encoding/json"
	"fmt"
	"html"
	"os"
	"os/exec"
	"path/filepath"
	"sort"
	"strconv"
	"strings"
	"time"

	sp "github.com/scipipe/scipipe"
	"vs"
)

// C20: audit report conversion is lossless.
//
// Enumerated (part "enum"): every lineage DAG up to isomorphism with depth <= 3 records,
// fan-in <= F upstream files per record (F = 2, thorough also 3), <= N records, where a
// record without inputs is either a source file (no producing task: empty command, zero
// times, as scipipe writes it) or an input-less task, and where an upstream record may be
// shared (reached through two paths, including "two output files of one task consumed by
// the same downstream task"); x every weak order (all order types incl. ties) of the start
// times of the task records (sources: zero time), up to the automorphisms of the DAG; x
// process naming (all distinct / all tasks of one process) x 0/1/2 parameters and tags per
// task x time zone notation (all UTC / alternating UTC and +02:00 for the same instants).
// The tree is written by scipipe's own FileIP.WriteAuditLogToFile and converted by the
// functions the CLI dispatches to (auditInfoToHTML / auditInfoToTeX / auditInfoToBash), called
// in-process by <scratch>/vc20 = /repo/cmd/scipipe + harness/cmdhook/hook.go, un-instrumented.
//
// Part "real": a handful of real workflows run natively by vc20 (real goroutines, bash,
// clock), also resumed after deleting the final file, converted through the plain CLI.
//
// Oracle (reference model = c20Lineage + c20Judge below, written from docs/index.md "The
// audit logs" and docs/howtos/convert_audit_logs.md):
//   - the lineage of a record is the set of distinct record IDs reachable through Upstream;
//   - HTML / TeX: every lineage record is listed in exactly one entry (an entry = one <table>
//     element / one tcolorbox environment that mentions a lineage ID), entries are in
//     non-decreasing start-time order (instants; ties in any order), and the entry shows the
//     record's command, every parameter and every tag (name next to value);
//   - Bash: the command of every record that has one appears exactly once as a line of the
//     script, in non-decreasing start-time order; for strictly causal start times the script,
//     run by real bash in a directory holding only the source files, re-creates the file
//     byte-identically.
//
// Deliberately not judged (documentation silent): layout, escaping (a command is accepted raw,
// HTML-escaped, with "_" written "\_", and with or without the "../" prefixes scipipe records),
// process names, times, the TeX timeline/summary, OutFiles guards of the script, parameters
// and tags in the Bash script (it has no place for them), source-file records in the Bash
// script (they carry nothing to list).

func init() { specialJobs["c20"] = runC20 }

// ---------------------------------------------------------------- shapes

type c20shape struct {
	n     int
	up    [][]int // upstream records of record i (a record listed twice: two of its files are consumed)
	src   []bool  // source file (no producing task); only records without upstream
	canon string
	autos [][]int // automorphisms (perm[old] = new), identity excluded
}

func (s *c20shape) clone() *c20shape {
	c := &c20shape{n: s.n}
	for _, u := range s.up {
		c.up = append(c.up, append([]int{}, u...))
	}
	c.src = append([]bool{}, s.src...)
	return c
}

func (s *c20shape) height(i int) int {
	h := 1
	for _, j := range s.up[i] {
		if x := 1 + s.height(j); x > h {
			h = x
		}
	}
	return h
}

func (s *c20shape) encode(perm []int) string {
	const w = 5
	b := make([]byte, s.n*w)
	for i := range b {
		b[i] = '.'
	}
	for i := 0; i < s.n; i++ {
		row := b[perm[i]*w : perm[i]*w+w]
		row[0] = 't'
		if s.src[i] {
			row[0] = 's'
		}
		u := make([]int, 0, 3)
		for _, j := range s.up[i] {
			u = append(u, perm[j])
		}
		sort.Ints(u)
		for k, x := range u {
			row[1+k] = byte('0' + x)
		}
	}
	return string(b)
}

func c20Perms(n int, f func([]int)) {
	p := make([]int, n)
	for i := range p {
		p[i] = i
	}
	var rec func(i int)
	rec = func(i int) {
		if i >= n {
			f(p)
			return
		}
		for j := i; j < n; j++ {
			p[i], p[j] = p[j], p[i]
			rec(i + 1)
			p[i], p[j] = p[j], p[i]
		}
	}
	rec(1) // the root stays record 0
}

func (s *c20shape) String() string {
	rows := []string{}
	for i := 0; i < s.n; i++ {
		if s.src[i] {
			rows = append(rows, fmt.Sprintf("%d:source", i))
		} else if len(s.up[i]) == 0 {
			rows = append(rows, fmt.Sprintf("%d:task()", i))
		} else {
			rows = append(rows, fmt.Sprintf("%d:task%v", i, s.up[i]))
		}
	}
	return strings.Join(rows, " ")
}

// c20Shapes: all DAGs (root = record 0, every record reachable) with <= maxDepth records on a
// path, fan-in <= maxFan, <= maxN records, up to isomorphism. Records are created in the order
// in which they are first referenced and edges lead to higher numbers; for depth <= 3 every DAG
// has such a numbering (number the level-2 records before the level-3 ones).
func c20Shapes(maxDepth, maxFan, maxN int) []*c20shape {
	seen := map[string]bool{}
	out := []*c20shape{}
	var rec func(s *c20shape, depth []int, i int)
	rec = func(s *c20shape, depth []int, i int) {
		if i == s.n {
			if s.height(0) > maxDepth || s.n > maxN {
				return
			}
			for a := 0; a < s.n; a++ { // a record consumed twice by one task has two outputs: a task
				for k := 1; k < len(s.up[a]); k++ {
					for l := 0; l < k; l++ {
						if s.up[a][k] == s.up[a][l] && s.src[s.up[a][k]] {
							return
						}
					}
				}
			}
			best := ""
			c20Perms(s.n, func(p []int) {
				if e := s.encode(p); best == "" || e < best {
					best = e
				}
			})
			if !seen[best] {
				seen[best] = true
				c := s.clone()
				c.canon = best
				out = append(out, c)
			}
			return
		}
		for _, src := range []bool{true, false} {
			s.src[i] = src
			s.up[i] = nil
			rec(s, depth, i+1)
		}
		s.src[i] = false
		d := depth[i]
		if d >= maxDepth {
			return
		}
		n0 := s.n
		opts := []int{-1}
		for j := i + 1; j < n0; j++ {
			opts = append(opts, j)
		}
		var choose func(start int, left int, cur []int)
		choose = func(start int, left int, cur []int) {
			if len(cur) > 0 {
				s2 := s.clone()
				dep2 := append([]int{}, depth...)
				ups := []int{}
				last := -1
				for _, c := range cur {
					switch {
					case c == -2:
						ups = append(ups, last)
					case c == -1:
						s2.up = append(s2.up, nil)
						s2.src = append(s2.src, false)
						dep2 = append(dep2, d+1)
						last = s2.n
						ups = append(ups, last)
						s2.n++
					default:
						last = c
						ups = append(ups, c)
						if dep2[c] < d+1 {
							dep2[c] = d + 1
						}
					}
				}
				if s2.n <= maxN {
					s2.up[i] = ups
					rec(s2, dep2, i+1)
				}
			}
			if left == 0 {
				return
			}
			for oi := start; oi < len(opts); oi++ {
				next := oi + 1
				if opts[oi] == -1 {
					next = oi // several new records
				}
				choose(next, left-1, append(append([]int{}, cur...), opts[oi]))
				if left >= 2 { // the same record through two of its files
					choose(next, left-2, append(append([]int{}, cur...), opts[oi], -2))
				}
			}
		}
		choose(0, maxFan, nil)
	}
	rec(&c20shape{n: 1, up: [][]int{nil}, src: []bool{false}}, []int{1}, 0)
	sort.Slice(out, func(a, b int) bool {
		if out[a].n != out[b].n {
			return out[a].n < out[b].n
		}
		return out[a].canon < out[b].canon
	})
	for _, s := range out {
		id := make([]int, s.n)
		for i := range id {
			id[i] = i
		}
		self := s.encode(id)
		c20Perms(s.n, func(p []int) {
			ident := true
			for i, x := range p {
				if i != x {
					ident = false
				}
			}
			if !ident && s.encode(p) == self {
				s.autos = append(s.autos, append([]int{}, p...))
			}
		})
	}
	return out
}

// c20WeakOrders: all rank vectors of k elements whose ranks are exactly 0..m-1 for some m
// (every order type of k start times including ties); Fubini numbers 1,1,3,13,75,541,4683,47293.
var c20woCache = map[int][][]int8{}

func c20WeakOrders(k int) [][]int8 {
	if r, ok := c20woCache[k]; ok {
		return r
	}
	res := [][]int8{}
	cur := make([]int8, k)
	var rec func(i int)
	rec = func(i int) {
		if i == k {
			used := make([]bool, k+1)
			mx := -1
			for _, r := range cur {
				used[r] = true
				if int(r) > mx {
					mx = int(r)
				}
			}
			for r := 0; r <= mx; r++ {
				if !used[r] {
					return
				}
			}
			res = append(res, append([]int8{}, cur...))
			return
		}
		for r := 0; r < k; r++ {
			cur[i] = int8(r)
			rec(i + 1)
		}
	}
	rec(0)
	c20woCache[k] = res
	return res
}

// ---------------------------------------------------------------- records (reference side)

type c20rec struct {
	id      string
	proc    string
	cmd     string
	params  [][2]string
	tags    [][2]string
	start   time.Time
	source  bool     // no producing task
	outs    []string // output files (generated trees)
	content string   // what its output file(s) must contain (generated trees)
	up      []int
}

type c20case struct {
	shape  *c20shape
	ranks  []int // per record; -1: source (zero time)
	naming int   // 0: every task its own process, 1: all tasks belong to one process
	pmode  int   // number of parameters and of tags per task
	zone   int   // 0: all times written in UTC, 1: odd records written with +02:00
}

func (c *c20case) key() string {
	return fmt.Sprintf("%s|ranks=%v|naming=%d|pmode=%d|zone=%d", c.shape.canon, c.ranks, c.naming, c.pmode, c.zone)
}

func (c *c20case) String() string {
	return fmt.Sprintf("{%s} start-ranks=%v naming=%s params/tags=%d zone=%s", c.shape, c.ranks, []string{"distinct", "one-process"}[c.naming], c.pmode, []string{"utc", "mixed"}[c.zone])
}

var c20epoch = time.Date(2020, 1, 1, 0, 0, 0, 0, time.UTC)
var c20plus2 = time.FixedZone("", 2*3600)

func c20hash(s string) uint64 {
	var h uint64 = 1469598103934665603
	for i := 0; i < len(s); i++ {
		h ^= uint64(s[i])
		h *= 1099511628211
	}
	return h
}

// build: the records of a case. Commands have the form scipipe records them in (inputs with
// a "../" prefix, outputs relative, parameter values substituted).
func (c *c20case) build() []*c20rec {
	s := c.shape
	recs := make([]*c20rec, s.n)
	two := make([]bool, s.n) // some task consumes two files of this record
	for i := 0; i < s.n; i++ {
		for k := 1; k < len(s.up[i]); k++ {
			for l := 0; l < k; l++ {
				if s.up[i][k] == s.up[i][l] {
					two[s.up[i][k]] = true
				}
			}
		}
	}
	ck := c.key()
	for i := 0; i < s.n; i++ {
		r := &c20rec{up: s.up[i], source: s.src[i]}
		r.id = fmt.Sprintf("r%dx%018s", i, strconv.FormatUint(c20hash(fmt.Sprint(ck, "#", i)), 36))
		r.id = strings.Replace(r.id, " ", "0", -1)[:20]
		if r.source {
			r.outs = []string{fmt.Sprintf("s%d.txt", i)}
		} else {
			r.outs = []string{fmt.Sprintf("f%d.txt", i)}
			if two[i] {
				r.outs = append(r.outs, fmt.Sprintf("f%db.txt", i))
			}
			r.proc = fmt.Sprintf("p_%d", i)
			if c.naming == 1 {
				r.proc = "proc_x"
			}
			if c.pmode >= 1 {
				r.params = append(r.params, [2]string{"pa", fmt.Sprintf("va%d", i)})
				r.tags = append(r.tags, [2]string{"ta", fmt.Sprintf("wa%d", i)})
			}
			if c.pmode >= 2 {
				// values with a printf verb / a bare percent sign: reports must show them as recorded
				r.params = append(r.params, [2]string{"pb_x", fmt.Sprintf("vb%d%%s", i)})
				r.tags = append(r.tags, [2]string{"tb_y", fmt.Sprintf("wb%d%%d%%", i)})
			}
			t := c20epoch.Add(time.Duration(c.ranks[i]+1) * time.Second)
			if c.zone == 1 && i%2 == 1 {
				t = t.In(c20plus2)
			}
			r.start = t
		}
		recs[i] = r
	}
	var fill func(i int)
	fill = func(i int) {
		r := recs[i]
		if r.content != "" {
			return
		}
		if r.source {
			r.content = fmt.Sprintf("source %d\n", i)
			return
		}
		if len(r.up) == 0 {
			r.cmd = fmt.Sprintf("echo \"g%d\" > %s", i, r.outs[0])
			r.content = fmt.Sprintf("g%d\n", i)
		} else {
			ins := []string{}
			for k, j := range r.up {
				fill(j)
				f := recs[j].outs[0]
				for l := 0; l < k; l++ {
					if r.up[l] == j {
						f = recs[j].outs[1]
					}
				}
				ins = append(ins, "../"+f)
				r.content += recs[j].content
			}
			r.cmd = "cat " + strings.Join(ins, " ") + " > " + r.outs[0]
		}
		if len(r.params) > 0 {
			vals := []string{}
			for _, p := range r.params {
				vals = append(vals, p[1])
			}
			r.cmd += "; echo " + strings.Join(vals, " ") + " >> " + r.outs[0]
			r.content += strings.Join(vals, " ") + "\n"
		}
		if len(r.outs) > 1 {
			r.cmd += " && cp " + r.outs[0] + " " + r.outs[1]
		}
		// every task also leaves an undeclared side file next to its first output; a task whose first
		// input comes from a task reads that side file through a path the record does not know
		// (the form a modifier chain like {i:in|%.txt}.aux produces: "../<stem>.aux")
		if len(r.up) > 0 && !recs[r.up[0]].source {
			j := r.up[0]
			r.cmd += "; cat ../" + strings.TrimSuffix(recs[j].outs[0], ".txt") + ".aux >> " + r.outs[0]
			r.content += fmt.Sprintf("aux%d\n", j)
			if len(r.outs) > 1 {
				r.cmd += " && cp " + r.outs[0] + " " + r.outs[1]
			}
		}
		r.cmd += "; echo aux" + fmt.Sprint(i) + " > " + strings.TrimSuffix(r.outs[0], ".txt") + ".aux"
		if i%3 == 2 {
			// the scipipe idiom for naming ports / parameters the command itself does not use:
			// a trailing shell comment (examples/resequencing: "bwa aln ... > {o:sai} # {i:idxdone}")
			r.cmd += " # rec" + fmt.Sprint(i)
		}
		if i%2 == 1 {
			// a command whose non-final part fails harmlessly (grep without hits, ...): scipipe ran it
			// with plain "bash -c", where only the last status counts; replaying it must do the same
			r.cmd = "false; " + r.cmd
		}
	}
	for i := range recs {
		fill(i)
	}
	return recs
}

// strictlyCausal: every task starts strictly after the tasks whose files it reads - only then
// is "in start-time order" an executable order and the generated script expected to work.
func c20StrictlyCausal(recs []*c20rec) bool {
	for _, r := range recs {
		for _, j := range r.up {
			if !recs[j].source && !recs[j].start.Before(r.start) {
				return false
			}
		}
	}
	return true
}

func c20DropOutFiles(ai *sp.AuditInfo, seen map[*sp.AuditInfo]bool) {
	if ai == nil || seen[ai] {
		return
	}
	seen[ai] = true
	ai.OutFiles = map[string]string{}
	for _, u := range ai.Upstream {
		c20DropOutFiles(u, seen)
	}
}

// auditTree: the records as scipipe's own structure (shared records = shared pointers).
func c20AuditTree(recs []*c20rec) *sp.AuditInfo {
	ais := make([]*sp.AuditInfo, len(recs))
	for i, r := range recs {
		ai := &sp.AuditInfo{ID: r.id, ProcessName: r.proc, Command: r.cmd, Params: map[string]string{}, Tags: map[string]string{}, OutFiles: map[string]string{}, Upstream: map[string]*sp.AuditInfo{}}
		for _, p := range r.params {
			ai.Params[p[0]] = p[1]
		}
		for _, p := range r.tags {
			ai.Tags[p[0]] = p[1]
		}
		if r.source {
			ai.ExecTimeNS = -1 // what NewAuditInfo leaves for a file without audit log
		} else {
			ai.StartTime = r.start
			// finish times run against the start times (long tasks started early)
			ai.FinishTime = c20epoch.Add(1000*time.Second - r.start.Sub(c20epoch)).In(r.start.Location())
			ai.ExecTimeNS = ai.FinishTime.Sub(ai.StartTime)
			for k, o := range r.outs {
				ai.OutFiles[fmt.Sprintf("out%d", k+1)] = o
			}
		}
		ais[i] = ai
	}
	for i, r := range recs {
		for k, j := range r.up {
			f := recs[j].outs[0]
			for l := 0; l < k; l++ {
				if r.up[l] == j {
					f = recs[j].outs[1]
				}
			}
			ais[i].Upstream[f] = ais[j]
		}
	}
	return ais[0]
}

// ---------------------------------------------------------------- reference model + oracle

type c20finding struct {
	class  string // missing-record | duplicate-record | order | equal-start-times | ambiguous-entry | command | params | tags
	sub    string
	detail string
}

// mapKeyEqual: two start times that Go's == (hence a map keyed by time.Time) cannot tell
// apart once read back from JSON: same instant, written with the same zone offset ("Z", or the
// same whole-hour offset, for which Go >= 1.19 shares one *Location). Only used to recognise
// the KNOWN defect precisely; the oracle itself compares instants.
func c20MapKeyEqual(a, b time.Time) bool {
	_, oa := a.Zone()
	_, ob := b.Zone()
	return a.Equal(b) && oa == ob
}

// c20JudgeListing: listed = the records (indices into recs) in the order the report lists
// them; judged = which records the report has to list.
func c20JudgeListing(recs []*c20rec, judged []bool, listed []int) []c20finding {
	out := []c20finding{}
	count := make([]int, len(recs))
	for _, i := range listed {
		count[i]++
	}
	n := 0
	missing, dup := []string{}, []string{}
	for i, r := range recs {
		if !judged[i] {
			continue
		}
		n++
		if count[i] == 0 {
			missing = append(missing, r.id)
		}
		if count[i] > 1 {
			dup = append(dup, fmt.Sprintf("%s x%d", r.id, count[i]))
		}
	}
	ordered := true
	for k := 1; k < len(listed); k++ {
		if recs[listed[k]].start.Before(recs[listed[k-1]].start) {
			ordered = false
		}
	}
	ids := []string{}
	for _, i := range listed {
		ids = append(ids, recs[i].id)
	}
	if len(missing) == 0 && len(dup) == 0 {
		if !ordered {
			out = append(out, c20finding{"order", "", "entries are not in start-time order: " + strings.Join(ids, " ")})
		}
		return out
	}
	// is it exactly the known collapse? same number of entries, still ordered, and within every
	// group of records with indistinguishable start times either every member once or one
	// member as often as the group is large
	if len(listed) == n && ordered {
		explained, zero, tied := true, false, false
		doneGroup := make([]bool, len(recs))
		for i, r := range recs {
			if !judged[i] || doneGroup[i] {
				continue
			}
			group := []int{}
			for j, q := range recs {
				if judged[j] && (j == i || c20MapKeyEqual(r.start, q.start)) {
					group = append(group, j)
					doneGroup[j] = true
				}
			}
			total, nonzero := 0, 0
			for _, j := range group {
				total += count[j]
				if count[j] > 0 {
					nonzero++
				}
			}
			switch {
			case total != len(group):
				explained = false
			case nonzero == len(group): // all once
			case nonzero == 1:
				if r.start.IsZero() {
					zero = true
				} else {
					tied = true
				}
			default:
				explained = false
			}
		}
		if explained && (zero || tied) {
			sub := "zero-time-sources"
			if tied {
				sub = "tied-tasks"
			}
			if tied && zero {
				sub = "zero-time-sources+tied-tasks"
			}
			out = append(out, c20finding{"equal-start-times", sub, fmt.Sprintf("records with the same start time collapse into copies of one of them: missing %v, listed more than once %v", missing, dup)})
			return out
		}
	}
	if len(missing) > 0 {
		out = append(out, c20finding{"missing-record", "", fmt.Sprintf("not listed: %v (listed: %s)", missing, strings.Join(ids, " "))})
	}
	if len(dup) > 0 {
		out = append(out, c20finding{"duplicate-record", "", fmt.Sprintf("listed more than once: %v (listed: %s)", dup, strings.Join(ids, " "))})
	}
	if !ordered {
		out = append(out, c20finding{"order", "", "entries are not in start-time order: " + strings.Join(ids, " ")})
	}
	return out
}

func c20TextVariants(s string) []string {
	v := []string{s}
	add := func(x string) {
		for _, y := range v {
			if y == x {
				return
			}
		}
		v = append(v, x)
	}
	add(strings.Replace(s, "../", "", -1))
	for _, x := range append([]string{}, v...) {
		add(html.EscapeString(x))
		add(strings.Replace(x, "_", "\\_", -1))
	}
	return v
}

func c20ContainsAny(text string, vars []string) bool {
	for _, v := range vars {
		if strings.Contains(text, v) {
			return true
		}
	}
	return false
}

// pairShown: the name is followed, after at most 4 characters that are neither letters nor
// digits (": ", "=", "</td><td>" is longer on purpose: name and value belong together), by the value
func c20PairShown(text, name, value string) bool {
	for _, nm := range c20TextVariants(name) {
		from := 0
		for {
			k := strings.Index(text[from:], nm)
			if k < 0 {
				break
			}
			rest := text[from+k+len(nm):]
			for skip := 0; skip <= 4 && skip <= len(rest); skip++ {
				for _, vv := range c20TextVariants(value) {
					if strings.HasPrefix(rest[skip:], vv) {
						return true
					}
				}
				if skip < len(rest) {
					ch := rest[skip]
					if ch >= 'a' && ch <= 'z' || ch >= 'A' && ch <= 'Z' || ch >= '0' && ch <= '9' {
						break
					}
				}
			}
			from += k + 1
		}
	}
	return false
}

// c20Judge: one converted report against the lineage.
func c20Judge(format, text string, recs []*c20rec) []c20finding {
	out := []c20finding{}
	judged := make([]bool, len(recs))
	listed := []int{}
	switch format {
	case "html", "tex":
		open, end := "<table>", "</table>"
		if format == "tex" {
			open, end = "\\begin{tcolorbox}", "\\end{tcolorbox}"
		}
		for i := range judged {
			judged[i] = true
		}
		parts := strings.Split(text, open)
		for _, blk := range parts[1:] {
			if k := strings.Index(blk, end); k >= 0 {
				blk = blk[:k]
			}
			who := []int{}
			for i, r := range recs {
				if strings.Contains(blk, r.id) {
					who = append(who, i)
				}
			}
			if len(who) == 0 {
				continue // not an entry of a record (TeX summary box)
			}
			if len(who) > 1 {
				out = append(out, c20finding{"ambiguous-entry", "", fmt.Sprintf("one entry mentions %d record IDs", len(who))})
				continue
			}
			r := recs[who[0]]
			listed = append(listed, who[0])
			if r.cmd != "" && !c20ContainsAny(blk, c20TextVariants(r.cmd)) {
				out = append(out, c20finding{"command", "", fmt.Sprintf("the entry of %s does not show its command %q", r.id, r.cmd)})
			}
			for _, p := range r.params {
				if !c20PairShown(blk, p[0], p[1]) {
					out = append(out, c20finding{"params", "", fmt.Sprintf("the entry of %s does not show parameter %s=%s", r.id, p[0], p[1])})
				}
			}
			for _, p := range r.tags {
				if !c20PairShown(blk, p[0], p[1]) {
					out = append(out, c20finding{"tags", "", fmt.Sprintf("the entry of %s does not show tag %s=%s", r.id, p[0], p[1])})
				}
			}
		}
	case "bash":
		for i, r := range recs {
			judged[i] = r.cmd != ""
		}
		for _, ln := range strings.Split(text, "\n") {
			ln = strings.TrimSpace(ln)
			if ln == "" {
				continue
			}
			// the line that IS a record's command, possibly wrapped by the script in a subshell or a
			// group ("( cmd )", "{ cmd; }"); the template's echo lines merely quote the command
			bare := c20StripWrap(ln)
			for i, r := range recs {
				if !judged[i] {
					continue
				}
				c2 := strings.Replace(r.cmd, "../", "", -1)
				if ln == r.cmd || ln == c2 || bare == r.cmd || bare == c2 {
					listed = append(listed, i)
					break
				}
			}
		}
	}
	return append(out, c20JudgeListing(recs, judged, listed)...)
}

// c20StripWrap removes subshell / group wrappers around a script line.
func c20StripWrap(ln string) string {
	for {
		t := strings.TrimSpace(ln)
		switch {
		case strings.HasPrefix(t, "(") || strings.HasPrefix(t, "{"):
			t = t[1:]
		case strings.HasSuffix(t, ")") || strings.HasSuffix(t, "}") || strings.HasSuffix(t, ";"):
			t = t[:len(t)-1]
		default:
			return t
		}
		ln = t
	}
}

// ---------------------------------------------------------------- running the real code

type c20run struct {
	job   *Job
	res   *Result
	vc20  string
	base  string
	agg   map[string]*c20agg
	aggK  []string
	execs int
}

type c20agg struct {
	format, class, sub string
	n                  int
	examples           []string
	first, last        string
}

func (r *c20run) finding(format string, f c20finding, caseKey, caseText string) {
	k := format + "|" + f.class + "|" + f.sub
	a := r.agg[k]
	if a == nil {
		a = &c20agg{format: format, class: f.class, sub: f.sub, first: caseKey}
		r.agg[k] = a
		r.aggK = append(r.aggK, k)
	}
	if a.last != caseKey {
		a.n++ // audit trees, not findings
		a.last = caseKey
	}
	if len(a.examples) < 2 {
		a.examples = append(a.examples, caseText+": "+f.detail)
	}
}

func (r *c20run) flush(total int) {
	sort.Strings(r.aggK)
	for _, k := range r.aggK {
		a := r.agg[k]
		sig := "c20|" + a.format + "|" + a.class + "|"
		if a.class == "equal-start-times" {
			sig += a.sub
		} else {
			sig += a.first // the first failing input of this shard: everything else is new
		}
		r.res.Violations = append(r.res.Violations, Violation{Prop: "C20", Class: a.format + ":" + a.class, Detail: fmt.Sprintf("%d of %d audit trees, e.g. %s", a.n, total, strings.Join(a.examples, "  ||  ")), Signature: sig, Job: r.job.ID})
		r.res.Extra["findings_"+a.format+"_"+a.class] += a.n
	}
}

func c20sh(script string) (string, error) {
	out, err := exec.Command("bash", "-c", script).CombinedOutput()
	return string(out), err
}

var c20ext = map[string]string{"html": "html", "tex": "tex", "bash": "sh"}
var c20formats = []string{"html", "tex", "bash"}

// convertBatch: ins[k] -> ins[k] with ".audit.json" replaced by ".audit.<ext>" for the three
// formats, in-process in one vc20 process; when that process dies (scipipe.Fail = os.Exit) the
// offending conversion is recorded and the rest is resumed. status[k][format] = "ok" or the error.
func (r *c20run) convertBatch(dir string, ins []string) ([]map[string]string, error) {
	type item struct {
		k      int
		format string
	}
	items := []item{}
	for k := range ins {
		for _, f := range c20formats {
			items = append(items, item{k, f})
		}
	}
	status := make([]map[string]string, len(ins))
	for k := range status {
		status[k] = map[string]string{}
	}
	round := 0
	for len(items) > 0 {
		round++
		list := filepath.Join(dir, fmt.Sprintf("list%d.txt", round))
		var sb strings.Builder
		for _, it := range items {
			sb.WriteString(it.format + "\t" + ins[it.k] + "\t" + strings.Replace(ins[it.k], ".audit.json", ".audit."+c20ext[it.format], 1) + "\n")
		}
		if err := os.WriteFile(list, []byte(sb.String()), 0644); err != nil {
			return nil, err
		}
		out, err := c20sh("cd " + dir + " && TZ=UTC " + r.vc20 + " verif-batch " + list + " 2>&1")
		doneData, _ := os.ReadFile(list + ".done")
		lines := strings.Split(strings.TrimRight(string(doneData), "\n"), "\n")
		if len(doneData) == 0 {
			lines = nil
		}
		for k, ln := range lines {
			if k < len(items) {
				status[items[k].k][items[k].format] = ln
			}
		}
		if len(lines) >= len(items) {
			break
		}
		if err == nil && len(lines) == 0 {
			return nil, fmt.Errorf("vc20 verif-batch produced nothing: %s", out)
		}
		// the conversion after the last reported one killed the process
		bad := items[len(lines)]
		status[bad.k][bad.format] = "process ended: " + strings.TrimSpace(out)
		items = items[len(lines)+1:]
		r.res.Extra["batch_restarts"]++
	}
	return status, nil
}

// reconvert: a report is a function of the record, not of what the report file held before - the
// longest tree of the batch is converted into one file, then the shortest one into the SAME file;
// the result must equal the conversion of the shortest tree into a fresh file (all three formats).
func (r *c20run) reconvert(dir string, ins []string, all [][]*c20rec) {
	kl, ks := 0, 0
	for k := range all {
		if len(all[k]) > len(all[kl]) {
			kl = k
		}
		if len(all[k]) < len(all[ks]) {
			ks = k
		}
	}
	if kl == ks {
		return
	}
	list := filepath.Join(dir, "reconv.txt")
	var sb strings.Builder
	for _, f := range c20formats {
		out := filepath.Join(dir, "reconv."+c20ext[f])
		sb.WriteString(f + "\t" + ins[kl] + "\t" + out + "\n")
		sb.WriteString(f + "\t" + ins[ks] + "\t" + out + "\n")
	}
	os.WriteFile(list, []byte(sb.String()), 0644)
	c20sh("cd " + dir + " && TZ=UTC " + r.vc20 + " verif-batch " + list + " 2>&1")
	for _, f := range c20formats {
		again, err1 := os.ReadFile(filepath.Join(dir, "reconv."+c20ext[f]))
		fresh, err2 := os.ReadFile(strings.Replace(ins[ks], ".audit.json", ".audit."+c20ext[f], 1))
		if err1 != nil || err2 != nil {
			continue // a failing conversion is reported by the enumeration itself
		}
		r.res.Extra["reconversions"]++
		// parameters and tags are rendered in map-iteration order: compare the byte histograms (a
		// permutation leaves them equal, anything left over from the old report does not)
		var ha, hf [256]int
		for _, b := range again {
			ha[b]++
		}
		for _, b := range fresh {
			hf[b]++
		}
		if ha != hf {
			n := len(fresh)
			if len(again) < n {
				n = len(again)
			}
			same := string(again[:n]) == string(fresh[:n])
			r.finding(f, c20finding{class: "stale-report-content", sub: "reconv", detail: fmt.Sprintf("converting a %d-record tree into a file that held the report of a %d-record tree gives %d bytes, into a fresh file %d bytes (fresh report is a prefix of it: %v)", len(all[ks]), len(all[kl]), len(again), len(fresh), same && len(again) > len(fresh))}, "reconvert", "re-conversion into an existing report file")
		}
	}
}

// runScript: real bash, in a fresh directory that holds only the given source files.
func (r *c20run) runScript(script string, sources map[string]string, want string) (string, bool, string) {
	r.execs++
	d := filepath.Join(r.base, "x", fmt.Sprintf("run%d", r.execs), "cwd")
	os.MkdirAll(d, 0777)
	for _, name := range c20sortedKeys(sources) {
		os.WriteFile(filepath.Join(d, name), []byte(sources[name]), 0644)
	}
	os.WriteFile(filepath.Join(d, "recreate.sh"), []byte(script), 0644)
	out, _ := c20sh("cd " + d + " && bash recreate.sh 2>&1")
	got, err := os.ReadFile(filepath.Join(d, want))
	os.RemoveAll(filepath.Dir(d))
	if err != nil {
		return "", false, out
	}
	return string(got), true, out
}

func c20sortedKeys(m map[string]string) []string {
	ks := make([]string, 0, len(m))
	for k := range m {
		ks = append(ks, k)
	}
	sort.Strings(ks)
	return ks
}

func c20short(s string, n int) string {
	s = strings.Replace(s, "\n", "\\n", -1)
	if len(s) > n {
		return s[:n] + "..."
	}
	return s
}

func runC20(job *Job, res *Result) {
	exe, err := os.Executable()
	if err != nil {
		exe = os.Args[0]
	}
	r := &c20run{job: job, res: res, vc20: filepath.Join(filepath.Dir(exe), "vc20"), base: job.Base, agg: map[string]*c20agg{}}
	if _, err := os.Stat(r.vc20); err != nil {
		res.Error = "c20: the CLI worker " + r.vc20 + " was not built (prep.sh needs VERIF_CLI=1)"
		return
	}
	if r.base == "" {
		r.base = fmt.Sprintf("/dev/shm/vw-c20-%d", os.Getpid())
		defer os.RemoveAll(r.base)
	}
	os.MkdirAll(r.base, 0777)
	if job.Args["part"] == "real" {
		r.realWorkflows()
		return
	}
	r.enumerate()
}

func c20atoi(s string, def int) int {
	if v, err := strconv.Atoi(s); err == nil {
		return v
	}
	return def
}

func (r *c20run) enumerate() {
	job, res := r.job, r.res
	fan := c20atoi(job.Args["fan"], 2)
	maxN := c20atoi(job.Args["maxn"], 7)
	minN := c20atoi(job.Args["minn"], 1)
	onlyFan := c20atoi(job.Args["onlyfan"], 0) // only shapes in which some record has this fan-in
	shard, nshards := c20atoi(job.Args["shard"], 0), c20atoi(job.Args["nshards"], 1)
	namings, pmodes, zones := []int{0, 1}, []int{0, 1, 2}, []int{0, 1}
	if job.Args["modes"] == "one" { // one combination per case, cycling through the 12
		namings, pmodes, zones = nil, nil, nil
	}
	shapes := c20Shapes(3, fan, maxN)
	res.Scenario = fmt.Sprintf("c20/enum/depth<=3/fan-in<=%d/records=%d..%d/shapes=%d/modes=%s/shard=%d of %d", fan, minN, maxN, len(shapes), job.Args["modes"], shard, nshards)
	// the cases of this shard
	cases := []*c20case{}
	idx := 0
	for _, s := range shapes {
		if s.n < minN {
			continue
		}
		if onlyFan > 0 {
			ok := false
			for _, u := range s.up {
				if len(u) == onlyFan {
					ok = true
				}
			}
			if !ok {
				continue
			}
		}
		tasks := []int{}
		for i := 0; i < s.n; i++ {
			if !s.src[i] {
				tasks = append(tasks, i)
			}
		}
		for _, wo := range c20WeakOrders(len(tasks)) {
			ranks := make([]int, s.n)
			for i := range ranks {
				ranks[i] = -1
			}
			for k, i := range tasks {
				ranks[i] = int(wo[k])
			}
			canonical := true
			for _, p := range s.autos {
				// image: record i becomes record p[i]
				less := false
				img := make([]int, s.n)
				for i := range ranks {
					img[p[i]] = ranks[i]
				}
				for i := range ranks {
					if img[i] != ranks[i] {
						less = img[i] < ranks[i]
						break
					}
				}
				if less {
					canonical = false
					break
				}
			}
			if !canonical {
				continue
			}
			if namings == nil {
				m := idx % 12
				if idx%nshards == shard {
					cases = append(cases, &c20case{shape: s, ranks: ranks, naming: m % 2, pmode: (m / 2) % 3, zone: m / 6})
				}
				idx++
				continue
			}
			for _, nm := range namings {
				for _, pm := range pmodes {
					for _, z := range zones {
						if idx%nshards == shard {
							cases = append(cases, &c20case{shape: s, ranks: ranks, naming: nm, pmode: pm, zone: z})
						}
						idx++
					}
				}
			}
		}
	}
	res.Extra["shapes"] = len(shapes)
	res.Extra["cases_all_shards"] = idx
	nontrivial, executed, shared, ties, conversions := 0, 0, 0, 0, 0
	sampleAt := 0 // one case of this shard is written out as a sample (a different region per shard)
	if len(cases) > 0 {
		sampleAt = (len(cases) * (shard + 1) / (nshards + 1)) % len(cases)
	}
	const batch = 400
	for b0 := 0; b0 < len(cases); b0 += batch {
		b1 := b0 + batch
		if b1 > len(cases) {
			b1 = len(cases)
		}
		dir := filepath.Join(r.base, fmt.Sprintf("b%d", b0))
		os.MkdirAll(dir, 0777)
		ins := []string{}
		all := [][]*c20rec{}
		for k, c := range cases[b0:b1] {
			recs := c.build()
			all = append(all, recs)
			in := filepath.Join(dir, fmt.Sprintf("k%d.%s.audit.json", k, recs[0].outs[0]))
			ins = append(ins, in)
			tree := c20AuditTree(recs)
			if c.naming == 1 && c.pmode == 0 {
				// the record layout of older scipipe versions: tasks without an OutFiles entry
				// (the fixture in cmd/scipipe/main_test.go is of that kind)
				c20DropOutFiles(tree, map[*sp.AuditInfo]bool{})
			}
			// written by scipipe itself; with a relative path from inside the batch directory (for an
			// absolute path FileIP.createDirs would create "__fsroot__/..." below the working directory)
			os.Chdir(dir)
			vs.Cwd = dir
			s := vs.Run(&vs.Prefix{}, func() {
				ip, err := sp.NewFileIP(strings.TrimSuffix(filepath.Base(in), ".audit.json"))
				if err != nil {
					panic(err)
				}
				ip.SetAuditInfo(tree)
				ip.WriteAuditLogToFile()
			})
			if s.Outcome != "" {
				res.Error = "c20: writing an audit tree ended with " + s.Outcome + " " + errLog.String()
				return
			}
		}
		status, err := r.convertBatch(dir, ins)
		if err == nil && b0 == 0 && len(ins) >= 2 {
			r.reconvert(dir, ins, all)
		}
		if err != nil {
			res.Error = "c20: " + err.Error()
			return
		}
		for k, c := range cases[b0:b1] {
			recs := all[k]
			if len(recs) >= 2 {
				nontrivial++
			}
			indeg := make([]int, len(recs)) // number of distinct consumers
			for _, q := range recs {
				for x, j := range q.up {
					if x == 0 || q.up[x-1] != j {
						indeg[j]++
					}
				}
			}
			sh, tie := false, false
			for i, q := range recs {
				if indeg[i] > 1 || len(q.outs) > 1 {
					sh = true
				}
				for j := 0; j < i; j++ {
					if q.start.Equal(recs[j].start) {
						tie = true
					}
				}
			}
			if sh {
				shared++
			}
			if tie {
				ties++
			}
			ck, ct := c.key(), c.String()
			listing := ""
			for _, f := range c20formats {
				conversions++
				if st := status[k][f]; st != "ok" {
					r.finding(f, c20finding{"conversion-failed", "", c20short(st, 200)}, ck, ct)
					continue
				}
				data, err := os.ReadFile(strings.Replace(ins[k], ".audit.json", ".audit."+c20ext[f], 1))
				if err != nil {
					r.finding(f, c20finding{"conversion-failed", "", "no output file"}, ck, ct)
					continue
				}
				fds := c20Judge(f, string(data), recs)
				for _, fd := range fds {
					r.finding(f, fd, ck, ct)
				}
				// a script whose list of commands is already wrong is reported as such, not run
				if f == "bash" && len(fds) == 0 && !recs[0].source && c20StrictlyCausal(recs) {
					executed++
					src := map[string]string{}
					for _, q := range recs {
						if q.source {
							src[q.outs[0]] = q.content
						}
					}
					got, ok, out := r.runScript(string(data), src, recs[0].outs[0])
					if !ok {
						r.finding(f, c20finding{"bash-recreate", "", fmt.Sprintf("the script did not create %s; its output: %s", recs[0].outs[0], c20short(out, 300))}, ck, ct)
					} else if got != recs[0].content {
						r.finding(f, c20finding{"bash-recreate", "", fmt.Sprintf("%s re-created as %q, expected %q", recs[0].outs[0], c20short(got, 120), c20short(recs[0].content, 120))}, ck, ct)
					}
				}
				if f == "html" && b0+k == sampleAt {
					ids := []string{}
					for _, blk := range strings.Split(string(data), "<table>")[1:] {
						for _, q := range recs {
							if strings.Contains(blk, q.id) {
								ids = append(ids, q.id[:2])
							}
						}
					}
					listing = strings.Join(ids, " ")
					res.Samples = append(res.Samples, ct+" -> html lists "+listing)
				}
			}
		}
		os.Chdir("/")
		os.RemoveAll(dir)
	}
	if len(res.Samples) == 0 && len(cases) > 0 {
		res.Samples = append(res.Samples, cases[len(cases)/2].String())
	}
	r.flush(len(cases))
	res.Stats = vs.Stats{Mode: "enumeration", Execs: len(cases), Nodes: nontrivial, Transitions: conversions, Closed: true}
	res.NOutcomes = nontrivial
	res.Extra["cases"] = len(cases)
	res.Extra["distinct_nontrivial"] = nontrivial
	res.Extra["cases_with_shared_ancestor"] = shared
	res.Extra["cases_with_equal_start_times"] = ties
	res.Extra["conversions"] = conversions
	res.Extra["scripts_executed"] = executed
}

// ---------------------------------------------------------------- real workflows

type c20json struct {
	ID          string
	ProcessName string
	Command     string
	Params      map[string]string
	Tags        map[string]string
	StartTime   time.Time
	OutFiles    map[string]string
	Upstream    map[string]*c20json
}

// c20Lineage: the distinct records (by ID) reachable through Upstream.
func c20Lineage(root *c20json) []*c20rec {
	recs := []*c20rec{}
	seen := map[string]bool{}
	var walk func(a *c20json)
	walk = func(a *c20json) {
		if a == nil || seen[a.ID] {
			return
		}
		seen[a.ID] = true
		q := &c20rec{id: a.ID, proc: a.ProcessName, cmd: a.Command, start: a.StartTime, source: a.Command == "" && a.StartTime.IsZero()}
		for _, k := range c20sortedKeys(a.Params) {
			q.params = append(q.params, [2]string{k, a.Params[k]})
		}
		for _, k := range c20sortedKeys(a.Tags) {
			q.tags = append(q.tags, [2]string{k, a.Tags[k]})
		}
		recs = append(recs, q)
		ups := make([]string, 0, len(a.Upstream))
		for k := range a.Upstream {
			ups = append(ups, k)
		}
		sort.Strings(ups)
		for _, k := range ups {
			walk(a.Upstream[k])
		}
	}
	walk(root)
	return recs
}

func (r *c20run) realWorkflows() {
	res := r.res
	res.Scenario = "c20/real-workflows"
	sources := map[string]string{"srca.txt": "alpha one\nalpha two\nalpha three\n", "srcb.txt": "beta\n"}
	type wfl struct {
		name   string
		final  string
		redo   []string // removed before the second (resumed) run, with their audit files
	}
	wfs := []wfl{
		{"hello", "hello.out.world.txt", []string{"hello.out.world.txt"}},
		{"fanin", "merged.upper.txt", []string{"merged.upper.txt"}},
		{"diamond", "joined.txt", []string{"joined.txt", "srca.right.txt"}},
		{"params", "collected.txt", []string{"collected.txt", "emit.x2.txt"}},
		{"twoout", "swapped.txt", []string{"swapped.txt"}},
	}
	trees, nontrivial, conversions, executed := 0, 0, 0, 0
	for _, w := range wfs {
		for _, variant := range []string{"fresh", "resumed"} {
			d := filepath.Join(r.base, "wf-"+w.name, "cwd")
			if variant == "fresh" {
				os.MkdirAll(d, 0777)
				for _, n := range c20sortedKeys(sources) {
					os.WriteFile(filepath.Join(d, n), []byte(sources[n]), 0644)
				}
			} else {
				for _, f := range w.redo {
					os.Remove(filepath.Join(d, f))
					os.Remove(filepath.Join(d, f+".audit.json"))
				}
			}
			if out, err := c20sh("cd " + d + " && " + r.vc20 + " verif-wf " + w.name + " 2>&1"); err != nil {
				res.Error = fmt.Sprintf("c20: real workflow %s (%s) failed: %v %s", w.name, variant, err, c20short(out, 400))
				return
			}
			audits, _ := filepath.Glob(filepath.Join(d, "*.audit.json"))
			sort.Strings(audits)
			for _, af := range audits {
				target := strings.TrimSuffix(filepath.Base(af), ".audit.json")
				data, err := os.ReadFile(af)
				var root c20json
				if err == nil {
					err = json.Unmarshal(data, &root)
				}
				if err != nil {
					res.Error = "c20: cannot read " + af + ": " + err.Error()
					return
				}
				recs := c20Lineage(&root)
				trees++
				if len(recs) >= 2 {
					nontrivial++
				}
				ck := fmt.Sprintf("real/%s/%s/%s", w.name, variant, target)
				ct := fmt.Sprintf("workflow %s (%s run), audit record of %s, %d lineage records", w.name, variant, target, len(recs))
				if target == w.final && len(res.Samples) < 6 {
					names := []string{}
					for _, q := range recs {
						names = append(names, fmt.Sprintf("%s[%q]", q.id[:4], q.cmd))
					}
					res.Samples = append(res.Samples, ct+": "+strings.Join(names, " "))
				}
				want, _ := os.ReadFile(filepath.Join(d, target))
				for _, f := range c20formats {
					conversions++
					outFile := filepath.Join(d, target+".c20."+c20ext[f])
					// the CLI itself, as a user runs it
					cmdName := map[string]string{"html": "audit2html", "tex": "audit2tex", "bash": "audit2bash"}[f]
					out, err := c20sh("cd " + d + " && TZ=UTC " + r.vc20 + " " + cmdName + " " + filepath.Base(af) + " " + filepath.Base(outFile) + " 2>&1")
					text, rerr := os.ReadFile(outFile)
					os.Remove(outFile)
					if err != nil || rerr != nil {
						r.finding(f, c20finding{"conversion-failed", "", c20short(out, 200)}, ck, ct)
						continue
					}
					fds := c20Judge(f, string(text), recs)
					for _, fd := range fds {
						r.finding(f, fd, ck, ct)
					}
					if f == "bash" && len(fds) == 0 && len(recs) > 0 && recs[0].cmd != "" {
						executed++
						got, ok, sout := r.runScript(string(text), sources, target)
						if !ok {
							r.finding(f, c20finding{"bash-recreate", "", fmt.Sprintf("the script did not create %s; its output: %s", target, c20short(sout, 300))}, ck, ct)
						} else if got != string(want) {
							r.finding(f, c20finding{"bash-recreate", "", fmt.Sprintf("%s re-created as %q, the workflow had written %q", target, c20short(got, 120), c20short(string(want), 120))}, ck, ct)
						}
					}
				}
			}
		}
		os.RemoveAll(filepath.Join(r.base, "wf-"+w.name))
	}
	r.flush(trees)
	res.Stats = vs.Stats{Mode: "enumeration", Execs: trees, Nodes: nontrivial, Transitions: conversions, Closed: true}
	res.NOutcomes = nontrivial
	res.Extra["cases"] = trees
	res.Extra["distinct_nontrivial"] = nontrivial
	res.Extra["conversions"] = conversions
	res.Extra["scripts_executed"] = executed
}
