//go:build verif

package main

import (
	"fmt"
	"os"
	"sort"
	"strings"
	"syscall"
)

func statString(fi os.FileInfo) string {
	st, ok := fi.Sys().(*syscall.Stat_t)
	if !ok {
		return fmt.Sprintf("?:%d:%d", fi.ModTime().UnixNano(), fi.Size())
	}
	return fmt.Sprintf("%d:%d:%d", st.Ino, fi.ModTime().UnixNano(), fi.Size())
}


func (r *runner) wants(o string) bool { return has(r.job.Oracles, o) }

func isTemp(p string) bool {
	for _, seg := range strings.Split(p, "/") {
		if strings.HasPrefix(seg, "_scipipe_tmp") {
			return true
		}
	}
	return false
}

// startedEnded: task keys with a start event / with an end event, in a prefix of the events.
func startedEnded(events []string) (started, ended map[string]int) {
	started, ended = map[string]int{}, map[string]int{}
	for _, e := range events {
		if strings.HasPrefix(e, "S:") {
			started[e[2:]]++
		}
		if strings.HasPrefix(e, "E:") {
			ended[e[2:]]++
		}
	}
	return
}

func procOfKey(key string) string {
	if i := strings.Index(key, "["); i >= 0 {
		return key[:i]
	}
	return key
}

// check runs the per-execution oracles selected by the job.
func (r *runner) check(o *Obs) []Violation {
	vs := []Violation{}
	add := func(prop, class, detail string) {
		vs = append(vs, Violation{Prop: prop, Class: class, Detail: detail})
	}
	completed := has(o.Notes, "COMPLETED")
	started, _ := startedEnded(o.Events)

	// ---------------- no-hang part shared by C04/C05/C07: deadlock, horizon, panic
	if r.wants("nohang") {
		switch {
		case o.Outcome == "deadlock":
			add(r.job.Prop, "deadlock", strings.Join(o.S.Deadlocked, " "))
		case o.Outcome == "horizon":
			add(r.job.Prop, "horizon", "execution exceeded the step horizon")
		case strings.HasPrefix(o.Outcome, "panic:") && !injectedPanic(o.Outcome):
			add(r.job.Prop, "panic", firstLine(o.Outcome))
		}
	}
	// ---------------- clean: the run is expected to complete with exit status 0
	if r.wants("clean") {
		if strings.HasPrefix(o.Outcome, "exit:") {
			add(r.job.Prop, "unexpected-exit", o.Outcome+" "+firstLine(o.ErrLog))
		}
	}
	// ---------------- C04: every input set exactly once; files are a function of the graph
	if r.wants("c04") && o.Outcome == "" {
		want := map[string]int{}
		for _, t := range r.ref.Tasks {
			if _, pre := r.skipped()[t.Key]; pre {
				continue
			}
			want[t.Key]++
		}
		for k, n := range want {
			if started[k] != n {
				add("C04", "task-count", fmt.Sprintf("task %s executed %d times, expected %d", k, started[k], n))
			}
		}
		for k, n := range started {
			if want[k] == 0 {
				add("C04", "task-count", fmt.Sprintf("unexpected task %s executed %d times", k, n))
			}
		}
		if completed {
			for p, c := range r.expectedFiles() {
				got, ok := o.Tree[p]
				if !ok {
					add("C04", "missing-file", p)
				} else if got != c {
					add("C04", "wrong-content", fmt.Sprintf("%s: got %q want %q", p, got, c))
				}
			}
			for p, c := range o.Tree {
				if c == "<dir>" || strings.HasSuffix(p, ".audit.json") {
					continue
				}
				if _, ok := r.expectedFiles()[p]; !ok && !has(r.spec.SourceFiles(), p) {
					add("C04", "extra-file", p)
				}
			}
		}
	}
	// ---------------- C05: at the moment Run returned everything is done and clean
	if r.wants("c05") && o.Outcome == "" {
		if o.RetTree == nil {
			add("C05", "no-return", "main thread never took its snapshot")
		} else {
			idx := -1
			for i, e := range o.Events {
				if e == "RET" {
					idx = i
				}
			}
			if idx >= 0 {
				s2, e2 := startedEnded(o.Events[:idx])
				for k, n := range s2 {
					if e2[k] < n {
						add("C05", "early-return", "Run returned while task "+k+" was still executing")
					}
				}
			}
			for _, t := range r.ref.Tasks {
				if s2 := started[t.Key]; s2 == 0 {
					if _, pre := r.skipped()[t.Key]; !pre {
						add("C05", "early-return", "Run returned although task "+t.Key+" never started")
					}
				}
			}
			for p := range r.expectedFiles() {
				if _, ok := o.RetTree[p]; !ok {
					add("C05", "early-return", "output "+p+" not at its final path when Run returned")
				}
			}
			for p, c := range o.RetTree {
				if isTemp(p) {
					add("C05", "leftover", "temp entry "+p+" exists when Run returned")
					break
				}
				if c == "<fifo>" || strings.HasSuffix(p, ".fifo") {
					add("C05", "leftover", "fifo "+p+" exists when Run returned")
				}
			}
		}
		// a process Run entered twice shows up as a doubled start event
		for k, n := range started {
			if n > 1 {
				add("C05", "double-start", fmt.Sprintf("task %s started %d times", k, n))
			}
		}
	}
	// ---------------- C06: running cores never exceed maxConcurrentTasks
	if r.wants("c06") {
		running := 0
		maxSeen := 0
		for i, e := range o.Events {
			if strings.HasPrefix(e, "S:") {
				running += r.coresOf(procOfKey(e[2:]))
			}
			if strings.HasPrefix(e, "E:") || strings.HasPrefix(e, "F:") {
				running -= r.coresOf(procOfKey(e[2:]))
			}
			if running > maxSeen {
				maxSeen = running
			}
			if running > r.spec.MaxTasks {
				add("C06", "slots-exceeded", fmt.Sprintf("%d cores executing with maxConcurrentTasks=%d after event %d (%s)", running, r.spec.MaxTasks, i, e))
				break
			}
		}
		r.res.Extra["max_cores_"+fmt.Sprint(maxSeen)]++
	}
	// ---------------- C07(c): oversize CoresPerTask is rejected, nothing of that process starts
	if r.wants("c07-oversize") {
		if !strings.HasPrefix(o.Outcome, "exit:") || o.Outcome == "exit:0" {
			add("C07", "oversize-not-rejected", "outcome "+o.Outcome)
		}
		for k := range started {
			if r.coresOf(procOfKey(k)) > r.spec.MaxTasks {
				add("C07", "oversize-started", "task "+k+" of the oversize process started")
			}
		}
	}
	// ---------------- C16(a): an unconnected in-port / parameter port is refused before anything runs
	if r.wants("c16-unwired") {
		if o.Outcome != "deadlock" && o.Outcome != "horizon" && !strings.HasPrefix(o.Outcome, "panic:") {
			if !strings.HasPrefix(o.Outcome, "exit:") || o.Outcome == "exit:0" {
				add("C16", "unwired-not-refused", "a port was left unconnected but the run ended with outcome '"+o.Outcome+"'")
			}
			for k := range started {
				add("C16", "unwired-executed", "task "+k+" executed although the workflow is not fully wired")
			}
			if completed {
				add("C16", "unwired-completed", "the program reached its completion marker")
			}
		}
	}
	// ---------------- C16(c): RunTo runs exactly the upstream closure
	if r.wants("c16-runto") && o.Outcome == "" {
		for k := range started {
			if !r.ref.Ran[procOfKey(k)] {
				add("C16", "runto-extra-process", "task "+k+" executed although its process is not upstream of the targets "+strings.Join(r.spec.RunTo, ","))
			}
		}
	}
	// every process of the closure ran its tasks (used where the pairing of items is not a function of the graph)
	if r.wants("c16-closure-ran") && o.Outcome == "" && completed {
		ranProcs := map[string]bool{}
		for k := range started {
			ranProcs[procOfKey(k)] = true
		}
		for _, ps := range r.spec.Procs {
			if (ps.Kind == "func" || ps.Kind == "cmd") && r.ref.Ran[ps.Name] && !ranProcs[ps.Name] {
				add("C16", "runto-missing-process", "no task of process "+ps.Name+" executed although it is upstream of the targets "+strings.Join(r.spec.RunTo, ","))
			}
		}
	}
	// ---------------- C08: emission order
	if r.wants("c08") && o.Outcome == "" {
		got := map[string][]string{}
		for _, n := range o.Notes {
			if strings.HasPrefix(n, "recv:") {
				f := strings.SplitN(n, ":", 3)
				got[f[1]] = append(got[f[1]], f[2])
			}
		}
		for _, e := range r.spec.Edges {
			to := r.spec.proc(e.To)
			if to == nil || to.Kind != "recorder" {
				continue
			}
			port := e.From + "." + e.FromPort
			want := r.ref.Emit[port]
			if r.ref.OrderOK[port] {
				if strings.Join(got[e.To], ",") != strings.Join(want, ",") {
					add("C08", "order", fmt.Sprintf("%s emitted [%s], inputs arrived as [%s]", port, strings.Join(got[e.To], ","), strings.Join(want, ",")))
				}
			} else {
				// fan-in: same multiset, and the items of each upstream keep their order
				a, b := append([]string{}, got[e.To]...), append([]string{}, want...)
				sort.Strings(a)
				sort.Strings(b)
				if strings.Join(a, ",") != strings.Join(b, ",") {
					add("C08", "order-multiset", fmt.Sprintf("%s emitted [%s], expected the items [%s]", port, strings.Join(got[e.To], ","), strings.Join(want, ",")))
				}
				for _, grp := range r.upstreamGroups(e.From) {
					sub := []string{}
					for _, g := range got[e.To] {
						for _, w := range grp {
							if g == w {
								sub = append(sub, g)
							}
						}
					}
					if strings.Join(sub, ",") != strings.Join(grp, ",") {
						add("C08", "fanin-order", fmt.Sprintf("%s emitted [%s]; items of one upstream must keep the order [%s]", port, strings.Join(got[e.To], ","), strings.Join(grp, ",")))
					}
				}
			}
		}
	}
	// property-specific oracles living in other files
	for _, f := range extraOracles {
		vs = append(vs, f(r, o)...)
	}
	return vs
}

var extraOracles []func(r *runner, o *Obs) []Violation

func firstLine(s string) string {
	s = strings.TrimSpace(s)
	if i := strings.Index(s, "\n"); i >= 0 {
		s = s[:i]
	}
	if len(s) > 200 {
		s = s[:200]
	}
	return s
}

func (r *runner) coresOf(proc string) int {
	if p := r.spec.proc(proc); p != nil && p.ZeroCores {
		return 0
	}
	if p := r.spec.proc(proc); p != nil && p.Cores > 0 {
		return p.Cores
	}
	return 1
}

// upstreamGroups: for a process with fan-in on its single in-port, the expected outputs
// grouped by the upstream that delivered the corresponding input, each in that upstream's order.
func (r *runner) upstreamGroups(proc string) [][]string {
	p := r.spec.proc(proc)
	groups := [][]string{}
	if p == nil || len(p.Ins) != 1 || len(p.Outs) != 1 {
		return groups
	}
	for _, e := range r.spec.Edges {
		if e.To != proc || e.Param {
			continue
		}
		if !r.ref.OrderOK[e.From+"."+e.FromPort] {
			continue
		}
		g := []string{}
		for _, in := range r.ref.Emit[e.From+"."+e.FromPort] {
			g = append(g, expandPattern(p.Outs[0].Pattern, proc, map[string]string{p.Ins[0]: in}, nil))
		}
		groups = append(groups, g)
	}
	return groups
}

// skipped: reference tasks that must NOT execute because one of their outputs pre-exists.
func (r *runner) skipped() map[string]bool {
	m := map[string]bool{}
	if len(r.job.Pre) == 0 && r.job.SeedDir == "" {
		return m
	}
	for _, t := range r.ref.Tasks {
		for _, p := range t.Outs {
			if _, ok := r.job.Pre[p]; ok {
				m[t.Key] = true
			}
			for _, f := range r.ref.DirOuts[p] {
				if _, ok := r.job.Pre[f]; ok {
					m[t.Key] = true
				}
			}
			if r.seedTreeAfterClean != nil {
				if _, ok := r.seedTreeAfterClean[p]; ok {
					m[t.Key] = true
				}
			}
		}
	}
	return m
}

// expectedFiles: final data files of the run (reference evaluation; pre-existing content wins
// and propagates downstream).
func (r *runner) expectedFiles() map[string]string {
	if len(r.job.Pre) == 0 {
		return r.ref.Files
	}
	if r.preRef == nil {
		r.preRef = r.spec.referencePre(r.job.Pre)
	}
	return r.preRef.Files
}

// checkExploration: oracles over the set of executions of one job.
func (r *runner) checkExploration() {
	res := r.res
	if r.wants("one-outcome") && res.Error == "" && len(res.Violations) == 0 {
		if len(res.Outcomes) > 1 {
			keys := []string{}
			for k := range res.Outcomes {
				keys = append(keys, k)
			}
			sort.Strings(keys)
			r.report(Violation{Prop: r.job.Prop, Class: "outcome-depends-on-schedule", Detail: fmt.Sprintf("%d distinct terminal outcomes, e.g. {%s} vs {%s}", len(keys), clip(keys[0], 300), clip(keys[1], 300))}, nil)
		}
	}
	if r.job.MinOrders > 0 && res.Stats.Closed && res.EventOrders < r.job.MinOrders && res.Error == "" {
		res.Error = fmt.Sprintf("vacuity: scenario %s exhibited %d event orders, at least %d expected", res.Scenario, res.EventOrders, r.job.MinOrders)
	}
}

func clip(s string, n int) string {
	if len(s) > n {
		return s[:n] + "..."
	}
	return s
}
