module vworker

go 1.21

require (
	github.com/scipipe/scipipe v0.0.0
	vs v0.0.0
)

replace github.com/scipipe/scipipe => ../scipipe

replace vs => ../vs
