//go:build !verif

// vnative: runs ONE scenario of the catalogue natively - real goroutines, real channels, real
// bash, the UN-instrumented scipipe of the tree under check - and leaves its observable
// outcome behind (exit status, events file, files on disk). The driver checks that this
// outcome is a member of the outcome set the explorer enumerated for the same scenario.
// Invoked under the name "vcmd" it is the command the scenarios' shell commands call.
package main

import (
	"encoding/json"
	"flag"
	"fmt"
	"io/ioutil"
	"os"
	"path/filepath"
	"syscall"

	sp "github.com/scipipe/scipipe"
	"vs"
)

type NJob struct {
	ID       string            `json:"id"`
	Scen     ScenParams        `json:"scen"`
	Fault    *Fault            `json:"fault,omitempty"`
	Pre      map[string]string `json:"pre,omitempty"`
	PreAudit bool              `json:"pre_audit,omitempty"`
	RunTo    []string          `json:"runto,omitempty"`
	RunToHow string            `json:"runtohow,omitempty"`
	Base     string            `json:"base"`
}

func directSpec(p ScenParams) *WSpec { panic("the narrow-seam drivers exist only in the instrumented build") }

func vcmdMain() {
	env := &Env{}
	env.reset()
	if f := os.Getenv("VW_FAULT"); f != "" {
		var ft Fault
		if json.Unmarshal([]byte(f), &ft) == nil {
			env.Fault = &ft
		}
	}
	// key paths as the instrumented build does: relative to the run directory
	cwdPrefix = os.Getenv("VW_RUNDIR") + "/"
	wd, _ := os.Getwd()
	if err := env.vcmd(wd, os.Args[1:]); err != nil {
		if env.Fault != nil && env.Fault.Kind == "killed" {
			// "the task's shell was killed by a signal"
			syscall.Kill(os.Getppid(), syscall.SIGKILL)
			syscall.Kill(os.Getpid(), syscall.SIGKILL)
		}
		fmt.Fprintln(os.Stderr, err)
		os.Exit(1)
	}
}

func main() {
	if filepath.Base(os.Args[0]) == "vcmd" {
		vcmdMain()
		return
	}
	jobFile := flag.String("job", "", "job JSON file")
	flag.Parse()
	data, err := ioutil.ReadFile(*jobFile)
	if err != nil {
		fmt.Println("cannot read job")
		os.Exit(3)
	}
	var job NJob
	if err := json.Unmarshal(data, &job); err != nil {
		fmt.Println(err)
		os.Exit(3)
	}
	dir := filepath.Join(job.Base, "e")
	os.RemoveAll(job.Base)
	os.MkdirAll(dir, 0777)
	os.Chdir(dir)
	cwdPrefix = dir + "/"
	job.Scen.Cwd = dir
	spec := catalog(job.Scen)
	spec.RunTo, spec.RunToHow = job.RunTo, job.RunToHow
	makeSources(spec)
	for p, c := range job.Pre {
		os.MkdirAll(filepath.Dir(p), 0777)
		os.WriteFile(p, []byte(c), 0644)
	}
	os.Setenv("VW_EVENTS", filepath.Join(job.Base, "events.log"))
	os.Setenv("VW_RUNDIR", dir)
	if job.Fault != nil {
		b, _ := json.Marshal(job.Fault)
		os.Setenv("VW_FAULT", string(b))
	}
	self, _ := os.Executable()
	os.Setenv("PATH", filepath.Dir(self)+"/natbin:"+os.Getenv("PATH"))
	sp.InitLog(ioutil.Discard, ioutil.Discard, ioutil.Discard, ioutil.Discard, ioutil.Discard, os.Stderr)
	env := &Env{Spec: spec, Fault: job.Fault}
	env.reset()
	refCache[spec] = spec.reference()
	b := spec.build(env)
	spec.run(b)
	vs.Note("COMPLETED")
}
