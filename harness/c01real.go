//go:build verif

package main

import (
	"fmt"
	"os"
	"path/filepath"
	"strings"

	sp "github.com/scipipe/scipipe"
	"github.com/scipipe/scipipe/components"
	"vs"
)

// C01, real bash: a command whose shell exits while a process it started (bash process
// substitution) is still writing a declared output. "Finished" means that every writer of the
// command is done: at the moment Run returns, and at the moment the output first appears at its
// final path, the straggler's bytes are all there. One schedule (a single task, nothing to
// interleave); the straggler is 0.4 s behind the shell, the run itself takes milliseconds.
func init() { specialJobs["procsub"] = runProcSub }

func runProcSub(job *Job, res *Result) {
	if job.Base == "" {
		job.Base = fmt.Sprintf("/dev/shm/vw-%d", os.Getpid())
	}
	dir := filepath.Join(job.Base, "e")
	res.Scenario = "procsub/real-bash/straggler-behind-the-shell"
	vs.ExecMode = "real"
	vs.SimExec = nil
	vs.CrashMode, vs.DiskDependent, vs.RaceMode, vs.EventsDependent = false, false, false, false
	vs.ForceAll = -1
	setup := func() {
		os.Chdir("/")
		os.RemoveAll(dir)
		os.MkdirAll(dir, 0777)
		os.Chdir(dir)
		vs.Cwd = dir
		vs.TmpRoot = filepath.Join(job.Base, "tmp")
		os.MkdirAll(vs.TmpRoot, 0777)
		os.WriteFile("in0.txt", []byte("a\nb\nc\n"), 0644)
		errLog.Reset()
	}
	body := func() {
		os.Setenv("SCIPIPE_BUFSIZE", "2")
		wf := sp.NewWorkflowCustomLogFile("w", 2, "/dev/null")
		src := components.NewFileSource(wf, "src", "in0.txt")
		p := wf.NewProc("p", "cat {i:in} | tee >( { echo begin; sleep 0.4; cat; echo end; } > {o:digest} ) > {o:copy}")
		p.SetOut("digest", "{i:in}.digest")
		p.SetOut("copy", "{i:in}.copy")
		p.In("in").From(src.Out())
		wf.Run()
		vs.Note("COMPLETED")
	}
	s := vs.RunOnce(setup, body, nil)
	tree := vs.ReadTree(".")
	res.Stats = vs.Stats{Mode: "single", Execs: 1, Transitions: s.StepCount(), Nodes: s.StepCount(), Closed: true}
	res.NOutcomes = 1
	add := func(class, detail string) {
		res.Violations = append(res.Violations, Violation{Prop: job.Prop, Class: class, Detail: detail, Signature: res.Scenario + "|" + class, Job: job.ID})
	}
	if strings.Contains(s.Outcome, "replay divergence") || strings.Contains(s.Outcome, "panic:vs:") || strings.HasPrefix(s.Outcome, "unsupported:") {
		res.Error = "engine error: " + s.Outcome
		return
	}
	res.Samples = append(res.Samples, fmt.Sprintf("outcome[%s] digest[%q] copy[%q]", s.Outcome, tree["in0.txt.digest"], tree["in0.txt.copy"]))
	if s.Outcome != "" || !has(s.NoteList(), "COMPLETED") {
		add("unexpected-outcome", s.Outcome+" "+logStamp.ReplaceAllString(firstLine(errLog.String()), ""))
		return
	}
	want := "begin\na\nb\nc\nend\n"
	if got, ok := tree["in0.txt.digest"]; !ok {
		add("missing-output", "in0.txt.digest does not exist when Run returns")
	} else if got != want {
		add("partial-output", fmt.Sprintf("when Run returned, in0.txt.digest at its final path held %q; the command (its process substitution included) writes %q", got, want))
	}
	if got := tree["in0.txt.copy"]; got != "a\nb\nc\n" {
		add("partial-output", fmt.Sprintf("in0.txt.copy holds %q", got))
	}
}
