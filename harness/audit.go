//go:build verif

package main

import (
	"bytes"
	"encoding/json"
	"fmt"
	"os"
	"path/filepath"
	"sort"
	"strings"
	"time"

	sp "github.com/scipipe/scipipe"
)

// C10 / C11: audit records compared field by field with the reference lineage tree.

func init() { extraOracles = append(extraOracles, oracleC10) }

type auditRec struct {
	ID          string
	ProcessName string
	Command     string
	Params      map[string]string
	Tags        map[string]string
	StartTime   time.Time
	FinishTime  time.Time
	ExecTimeNS  int64
	OutFiles    map[string]string
	Upstream    map[string]*auditRec
}

// producerOf: reference task that produces a path (nil: source file)
func (r *runner) producerOf(path string) *RefTask {
	for _, t := range r.ref.Tasks {
		for _, p := range t.Outs {
			if p == path {
				return t
			}
		}
	}
	return nil
}

// expectedTags of the record of a file: tags set on it by a tagging component + the tags of
// everything it was computed from (MapToTags tags the IP in place, tasks merge their inputs' tags).
//
// direct=false leaves out the tags that a tagger puts on the path itself: the view of a SIBLING of
// the tagger (a consumer fed by the same out-port), which is not downstream of the tagging step.
func (r *runner) expectedTags(path string, memo map[string]map[string]string) map[string]string {
	return r.expectedTagsD(path, memo, true)
}

// siblingOfTagger: process proc receives path from an out-port that also feeds a tagger.
func (r *runner) siblingOfTagger(proc, path string) bool {
	for _, e := range r.spec.Edges {
		if e.To != proc || e.Param {
			continue
		}
		mine := false
		for _, p := range r.ref.Emit[e.From+"."+e.FromPort] {
			if p == path {
				mine = true
			}
		}
		if !mine {
			continue
		}
		for _, e2 := range r.spec.Edges {
			if to := r.spec.proc(e2.To); to != nil && to.Kind == "tagger" && e2.To != proc && e2.From == e.From && e2.FromPort == e.FromPort {
				return true
			}
		}
	}
	return false
}

func (r *runner) expectedTagsD(path string, memo map[string]map[string]string, direct bool) map[string]string {
	mk := path
	if !direct {
		mk = "\x00nodirect:" + path
	}
	if m, ok := memo[mk]; ok {
		return m
	}
	m := map[string]string{}
	memo[mk] = m
	if t := r.producerOf(path); t != nil {
		if ps := r.spec.proc(t.Proc); ps != nil && ps.Kind == "joiner" {
			// members' tags are not merged into a joined record (judged separately)
		} else {
			for _, in := range t.Ins {
				for k, v := range r.expectedTagsD(in, memo, !r.siblingOfTagger(t.Proc, in)) {
					m[k] = v
				}
			}
		}
	}
	if !direct {
		return m
	}
	// a tagger that consumes this path tags it
	for _, e := range r.spec.Edges {
		to := r.spec.proc(e.To)
		if to == nil || to.Kind != "tagger" || !r.ref.Ran[e.To] {
			continue
		}
		for _, p := range r.ref.Emit[e.From+"."+e.FromPort] {
			if p == path {
				m[to.TagKey] = filepath.Base(path)
				if to.EmptyTag != "" {
					m[to.EmptyTag] = ""
				}
			}
		}
	}
	return m
}

func (r *runner) hasTagger() bool {
	for _, p := range r.spec.Procs {
		if p.Kind == "tagger" {
			return true
		}
	}
	return false
}

func sameMap(a, b map[string]string) bool {
	if len(a) != len(b) {
		return false
	}
	for k, v := range a {
		if b[k] != v {
			return false
		}
	}
	return true
}

// compareRecord: rec is the audit record found for path.
func (r *runner) compareRecord(path string, rec *auditRec, where string, o *Obs, memo map[string]map[string]string, add func(class, detail string)) {
	r.compareRecordS(path, rec, where, o, memo, add, false)
}

// sibling: the record was taken by a consumer that is a sibling of a tagger of this path (the
// tagger's own tag on the path is then neither expected nor compared with the record on disk).
func (r *runner) compareRecordS(path string, rec *auditRec, where string, o *Obs, memo map[string]map[string]string, add func(class, detail string), sibling bool) {
	if rec == nil {
		add("audit-missing-upstream", where+": no record")
		return
	}
	t := r.producerOf(path)
	if t == nil {
		// source file: no producing task
		if rec.ProcessName != "" || rec.Command != "" || len(rec.Upstream) != 0 {
			add("audit-source", fmt.Sprintf("%s: record of source file %s names a process/command/upstream (%q)", where, path, rec.ProcessName))
		}
		return
	}
	ps := r.spec.proc(t.Proc)
	if rec.ProcessName != t.Proc {
		add("audit-process", fmt.Sprintf("%s: ProcessName %q, expected %q", where, rec.ProcessName, t.Proc))
	}
	if !sameMap(rec.Params, t.Params) {
		add("audit-params", fmt.Sprintf("%s: Params %v, expected %v", where, rec.Params, t.Params))
	}
	// absolute paths below the scenario's working directory are compared in their relative form
	nOut := map[string]string{}
	for k, v := range rec.OutFiles {
		nOut[k] = normPath(v)
	}
	rec.OutFiles = nOut
	nUp := map[string]*auditRec{}
	for k, v := range rec.Upstream {
		nUp[normPath(k)] = v
	}
	rec.Upstream = nUp
	if !sameMap(rec.OutFiles, t.Outs) {
		add("audit-outfiles", fmt.Sprintf("%s: OutFiles %v, expected %v", where, rec.OutFiles, t.Outs))
	}
	// "tags attached upstream are present on every downstream record": the expected tags must be
	// there (extra tags are not judged here; a nested record that differs from the file's own
	// record on disk is caught by the differential comparison below)
	want := r.expectedTagsD(path, memo, !sibling)
	for k, v := range want {
		if got, ok := rec.Tags[k]; !ok || got != v {
			add("audit-tags", fmt.Sprintf("%s: tag %s=%s attached upstream is missing (Tags %v)", where, k, v, rec.Tags))
		}
	}
	if !r.hasTagger() {
		// nothing in this workflow attaches tags: a record carries none (with a tagging component in the
		// workflow a sibling's view is schedule-dependent, so extra tags are not judged there)
		for k, v := range rec.Tags {
			if _, ok := want[k]; !ok {
				add("audit-tags-foreign", fmt.Sprintf("%s: tag %s=%s was never attached in this run (Tags %v)", where, k, v, rec.Tags))
			}
		}
	}
	// "it contains the full audit record of every input file": a nested record equals the record
	// that accompanies that file on disk
	if strings.Contains(where, " <- ") {
		if a, ok := o.Tree[path+".audit.json"]; ok {
			var disk auditRec
			if json.Unmarshal([]byte(a), &disk) == nil {
				dOut := map[string]string{}
				for k, v := range disk.OutFiles {
					dOut[k] = normPath(v)
				}
				disk.OutFiles = dOut
				if disk.ProcessName != rec.ProcessName || disk.Command != rec.Command || !sameMap(disk.Params, rec.Params) || (!sibling && !sameMap(disk.Tags, rec.Tags)) || !sameMap(disk.OutFiles, rec.OutFiles) {
					add("audit-nested-differs", fmt.Sprintf("%s: the nested record differs from %s.audit.json (nested process %q command %q tags %v params %v out-files %v; on disk process %q command %q tags %v params %v out-files %v)", where, path, rec.ProcessName, rec.Command, rec.Tags, rec.Params, rec.OutFiles, disk.ProcessName, disk.Command, disk.Tags, disk.Params, disk.OutFiles))
				}
			}
		}
	}
	if rec.FinishTime.Before(rec.StartTime) {
		add("audit-time", where+": FinishTime before StartTime")
	}
	if d := rec.FinishTime.Sub(rec.StartTime); rec.ExecTimeNS != int64(d) {
		add("audit-time", fmt.Sprintf("%s: ExecTimeNS %d is not FinishTime - StartTime (%d)", where, rec.ExecTimeNS, int64(d)))
	}
	if rec.ExecTimeNS < 0 {
		add("audit-time", fmt.Sprintf("%s: negative ExecTimeNS %d", where, rec.ExecTimeNS))
	}
	if ps != nil && ps.Kind == "cmd" {
		if cmd, ok := r.env.CmdByKey[t.Key]; ok && rec.Command != cmd {
			add("audit-command", fmt.Sprintf("%s: Command %q, executed was %q", where, rec.Command, cmd))
		}
	}
	// Upstream: keyed by input path, recursively back to the sources
	wantUp := []string{}
	if ps != nil && ps.Kind == "joiner" {
		wantUp = append(wantUp, r.ref.Emit[t.Proc+".members"]...)
		wantUp = append(wantUp, r.ref.Emit[t.Proc+".members2"]...)
	} else {
		for _, in := range t.Ins {
			wantUp = append(wantUp, in)
		}
	}
	sort.Strings(wantUp)
	gotUp := []string{}
	for k := range rec.Upstream {
		gotUp = append(gotUp, k)
	}
	sort.Strings(gotUp)
	if strings.Join(gotUp, ",") != strings.Join(wantUp, ",") {
		add("audit-upstream", fmt.Sprintf("%s: Upstream keys %v, expected the input paths %v", where, gotUp, wantUp))
	}
	for _, in := range wantUp {
		if up, ok := rec.Upstream[in]; ok {
			r.compareRecordS(in, up, where+" <- "+in, o, memo, add, r.siblingOfTagger(t.Proc, in))
		}
	}
}

func oracleC10(r *runner, o *Obs) []Violation {
	if !r.wants("c10") || o.Outcome != "" || !has(o.Notes, "COMPLETED") {
		return nil
	}
	out := []Violation{}
	add := func(class, detail string) {
		out = append(out, Violation{Prop: "C10", Class: class, Detail: detail})
	}
	memo := map[string]map[string]string{}
	paths := []string{}
	for p := range r.ref.Files {
		if r.producerOf(p) != nil {
			paths = append(paths, p)
		}
	}
	sort.Strings(paths)
	for _, p := range paths {
		if _, ok := o.Tree[p]; !ok {
			continue // missing outputs are C04's business
		}
		if _, pre := r.job.Pre[p]; pre {
			continue
		}
		a, ok := o.Tree[p+".audit.json"]
		if !ok {
			add("audit-missing", "output "+p+" has no .audit.json")
			continue
		}
		var rec auditRec
		if err := json.Unmarshal([]byte(a), &rec); err != nil {
			add("audit-invalid", p+".audit.json is not valid JSON: "+err.Error())
			continue
		}
		r.compareRecord(p, &rec, p, o, memo, add)
		// writing a record and reading it back loses nothing (C11)
		if r.wants("c11-roundtrip") {
			ai := sp.UnmarshalAuditInfoJSONFile(p + ".audit.json")
			b, err := json.MarshalIndent(ai, "", "    ")
			if err != nil || !bytes.Equal(b, []byte(a)) {
				add("audit-roundtrip", "reading "+p+".audit.json back and re-serialising it does not reproduce the file")
			}
		}
	}
	// ancestors that were not re-executed keep the record that was on disk (C11)
	if r.wants("c11-unchanged") && r.seedTree != nil {
		started, _ := startedEnded(o.Events)
		for _, t := range r.ref.Tasks {
			if started[t.Key] > 0 {
				continue
			}
			for _, p := range t.Outs {
				before, ok1 := r.seedTreeAfterClean[p+".audit.json"]
				after, ok2 := o.Tree[p+".audit.json"]
				if ok1 && ok2 && before != after && !r.taggedPath(p) {
					add("audit-ancestor-changed", "the audit record of "+p+" (not re-executed) differs from the one that was on disk")
				}
			}
		}
	}
	return out
}

// taggedPath: a tagging component re-writes the audit file of this path on every run.
func (r *runner) taggedPath(path string) bool {
	for _, e := range r.spec.Edges {
		to := r.spec.proc(e.To)
		if to != nil && to.Kind == "tagger" {
			for _, p := range r.ref.Emit[e.From+"."+e.FromPort] {
				if p == path {
					return true
				}
			}
		}
	}
	return false
}

// applyDeletes removes outputs (and their audit files) from the seeded directory.
func applyDeletes(paths []string) {
	for _, p := range paths {
		os.Remove(p)
		os.Remove(p + ".audit.json")
	}
}

// oracleC11Resumed: a run resumed from a cleaned crash state; where it completes, the audit
// lineage of everything it produced is the reference lineage (C03 judges whether it completes).
func init() {
	extraOracles = append(extraOracles, func(r *runner, o *Obs) []Violation {
		if !r.wants("c11-resumed") || o.Outcome != "" || !has(o.Notes, "COMPLETED") {
			return nil
		}
		job2 := *r.job
		job2.Oracles = []string{"c10", "c11-roundtrip"}
		saved := r.job
		r.job = &job2
		defer func() { r.job = saved }()
		vs := oracleC10(r, o)
		for i := range vs {
			vs[i].Prop = "C11"
			vs[i].Signature = r.job.Args["origin"] + "|" + vs[i].Class + "|" + r.job.Args["crash_after"]
		}
		return vs
	})
}
