//go:build verif

package main

import (
	"fmt"
	"os"
	"regexp"
	"sort"
	"strings"

	sp "github.com/scipipe/scipipe"
	"vs"
)

// C14: temp directories are injective, stable and one valid path segment.
// Exhaustive over a small alphabet of task identities, built through the public
// constructor NewTask; every pair is compared by grouping on the TempDir() value.

func init() { specialJobs["c14"] = runC14 }

type ident struct {
	name   string
	ins    map[string]string   // port -> path
	params map[string]string
	tags   map[string]string
	sub    []string // members of the joined port "s" (nil: no joined port)
}

func (id *ident) canon() string {
	return fmt.Sprintf("name=%q ins=%s params=%s tags=%s sub=%q", id.name, mapStr(id.ins), mapStr(id.params), mapStr(id.tags), id.sub)
}

func mapStr(m map[string]string) string {
	ks := make([]string, 0, len(m))
	for k := range m {
		ks = append(ks, k)
	}
	sort.Strings(ks)
	p := []string{}
	for _, k := range ks {
		p = append(p, k+":"+m[k])
	}
	return "{" + strings.Join(p, ",") + "}"
}

// flat: the pieces of an identity written one after the other without separators. Two
// different identities with the same flat string collide for ONE specific reason: the hash
// input is a separator-less concatenation (known finding); any other collision is new.
func (id *ident) flat() string {
	pcs := []string{id.name}
	ks := make([]string, 0, len(id.ins))
	for k := range id.ins {
		ks = append(ks, k)
	}
	sort.Strings(ks)
	for _, k := range ks {
		pcs = append(pcs, splitPath(id.ins[k])...)
	}
	for _, s := range id.sub {
		pcs = append(pcs, splitPath(s)...)
	}
	for _, m := range []map[string]string{id.params, id.tags} {
		ks := make([]string, 0, len(m))
		for k := range m {
			ks = append(ks, k)
		}
		sort.Strings(ks)
		for _, k := range ks {
			pcs = append(pcs, k+"_"+m[k])
		}
	}
	return strings.Join(pcs, "")
}

func splitPath(p string) []string {
	r := []string{}
	for _, s := range strings.Split(p, "/") {
		if s != "" && s != "." {
			r = append(r, s)
		}
	}
	return r
}

func subsetsUpTo2(names []string, values []string) []map[string]string {
	out := []map[string]string{{}}
	for _, n := range names {
		for _, v := range values {
			out = append(out, map[string]string{n: v})
		}
	}
	if len(names) >= 2 {
		for _, v1 := range values {
			for _, v2 := range values {
				out = append(out, map[string]string{names[0]: v1, names[1]: v2})
			}
		}
	}
	return out
}

var segRe = regexp.MustCompile(`^[A-Za-z0-9._-]+$`)

func runC14(job *Job, res *Result) {
	os.Setenv("SCIPIPE_BUFSIZE", "8")
	thorough := job.Args["tier"] == "thorough"
	names := strings.Split(job.Args["names"], "|")
	// "a/a/b", "../../a": a directory named like its parent inside the path
	paths := []string{"a", "b", "ab", "a/b", "a.b", "a/a/b", "../../a"}
	vals := []string{"b", "b_c", "c"}
	if v := job.Args["vals"]; v != "" {
		// parameter / tag values outside the path alphabet (they are legal values; only paths are restricted)
		vals = strings.Split(v, "|")
	}
	pnames := []string{"a", "a_b"}
	subs := [][]string{nil, {}, {"a"}, {"ab"}, {"a/b"}, {"a", "b"}}
	if thorough {
		paths = append(paths, "/a", "../a", "b/a")
		vals = append(vals, "a")
		subs = append(subs, []string{"b", "a"}, []string{"ab", "a"}, []string{"a/b", "a"})
	}
	inMaps := subsetsUpTo2([]string{"x", "y"}, paths)
	parMaps := subsetsUpTo2(pnames, vals)
	tagMaps := parMaps
	if !thorough {
		// quick tier: fewer tag values, but still maps with two tags (their order must not matter)
		tagMaps = subsetsUpTo2(pnames, vals[:2])
		parMaps = subsetsUpTo2(pnames, vals[:2])
	}
	res.Scenario = fmt.Sprintf("c14/names=%v/in-maps=%d/param-maps=%d/tag-maps=%d/substreams=%d", names, len(inMaps), len(parMaps), len(tagMaps), len(subs))
	byDir := map[string][]string{} // TempDir -> canon of the identities (first few)
	flatOf := map[string]string{}
	n := 0
	nmulti := 0
	var wf *sp.Workflow
	var holder, joinHolder *sp.Process
	build := func(id *ident) string {
		dir := ""
		s := vs.Run(&vs.Prefix{}, func() {
			if wf == nil {
				wf = sp.NewWorkflowCustomLogFile("w", 4, "/dev/null")
				holder = wf.NewProc("holder", "# nothing")
				joinHolder = wf.NewProc("jholder", "# {i:s|join:,}")
			}
			inIPs := map[string]*sp.FileIP{}
			for port, p := range id.ins {
				ip, err := sp.NewFileIP(p)
				if err != nil {
					panic(err)
				}
				inIPs[port] = ip
			}
			portInfos := map[string]*sp.PortInfo{}
			if id.sub != nil {
				carrier, _ := sp.NewFileIP("carrier")
				carrier.SubStream = sp.NewInPort("sub")
				for _, m := range id.sub {
					mip, _ := sp.NewFileIP(m)
					carrier.SubStream.Chan <- mip
				}
				close(carrier.SubStream.Chan)
				inIPs["s"] = carrier
				portInfos["s"] = joinHolder.PortInfo["s"]
			}
			t := sp.NewTask(wf, holder, id.name, "", inIPs, map[string]func(*sp.Task) string{}, portInfos, id.params, id.tags, "", nil, 1)
			dir = t.TempDir()
			if d2 := t.TempDir(); d2 != dir {
				dir = "UNSTABLE:" + dir + " vs " + d2
			}
		})
		if s.Outcome != "" {
			res.Error = "c14: building a task ended with " + s.Outcome + " " + errLog.String()
		}
		return dir
	}
	viol := func(class, detail, sig string) {
		if len(res.Violations) < 30 {
			res.Violations = append(res.Violations, Violation{Prop: "C14", Class: class, Detail: detail, Signature: sig, Job: job.ID})
		}
	}
	for _, name := range names {
		for _, ins := range inMaps {
			for _, pars := range parMaps {
				for _, tags := range tagMaps {
					for _, sub := range subs {
						id := &ident{name: name, ins: ins, params: pars, tags: tags, sub: sub}
						vs.ForceAll = -1
						dir := build(id)
						if res.Error != "" {
							return
						}
						n++
						c := id.canon()
						if strings.HasPrefix(dir, "UNSTABLE:") {
							viol("unstable", c+": "+dir, "c14|unstable|"+c)
							continue
						}
						// stability under every other map iteration order: every identity with a map of
						// >= 2 entries (every 5th of them in the quick tier, every 3rd in the thorough tier), every 11th of the others
						multi := len(id.ins) >= 2 || len(id.params) >= 2 || len(id.tags) >= 2
						if multi {
							nmulti++
						}
						if (multi && ((thorough && nmulti%3 == 0) || (!thorough && nmulti%5 == 0))) || n%11 == 0 {
							for v := 1; v < 6; v++ {
								vs.ForceAll = v
								if d2 := build(id); d2 != dir {
									viol("unstable-maporder", fmt.Sprintf("%s: %s under sorted map order, %s under order variant %d", c, dir, d2, v), "c14|unstable-maporder|"+c)
								}
							}
							vs.ForceAll = -1
						}
						if strings.Contains(dir, "/") || len(dir) > 255 || !segRe.MatchString(dir) {
							viol("invalid-segment", fmt.Sprintf("%s: temp dir %q is not one valid path segment of <= 255 bytes", c, dir), "c14|invalid-segment|"+c)
						}
						if len(byDir[dir]) < 4 {
							byDir[dir] = append(byDir[dir], c)
						}
						flatOf[c] = id.flat()
						if len(res.Samples) < 3 {
							res.Samples = append(res.Samples, c+" -> "+dir)
						}
					}
				}
			}
		}
	}
	// long names around the 255 boundary
	long := 0
	for l := 180; l <= 262; l++ {
		id := &ident{name: strings.Repeat("n", l), ins: map[string]string{"x": "a"}, params: map[string]string{}, tags: map[string]string{}}
		dir := build(id)
		long++
		if strings.Contains(dir, "/") || len(dir) > 255 || !segRe.MatchString(dir) {
			viol("invalid-segment", fmt.Sprintf("name of length %d: temp dir of %d bytes", l, len(dir)), fmt.Sprintf("c14|invalid-segment|len=%d", l))
		}
		id2 := &ident{name: strings.Repeat("n", l), ins: map[string]string{"x": "b"}, params: map[string]string{}, tags: map[string]string{}}
		if build(id2) == dir {
			viol("collision", fmt.Sprintf("name of length %d: tasks with inputs a and b share %s", l, dir), fmt.Sprintf("c14|collision|other|len=%d", l))
		}
	}
	collisions, concat := 0, 0
	dirs := make([]string, 0, len(byDir))
	for d := range byDir {
		dirs = append(dirs, d)
	}
	sort.Strings(dirs)
	examples := []string{}
	for _, d := range dirs {
		ids := byDir[d]
		if len(ids) < 2 {
			continue
		}
		collisions++
		class := "concat-ambiguity"
		for _, c := range ids[1:] {
			if flatOf[c] != flatOf[ids[0]] {
				class = "other"
				ids[1] = c // show a pair that the separator-less concatenation does not explain
			}
		}
		if class == "concat-ambiguity" {
			concat++
			if len(examples) < 3 {
				examples = append(examples, ids[0]+"  <->  "+ids[1])
			}
			continue
		}
		viol("collision", fmt.Sprintf("different tasks share temp dir %s: %s  <->  %s", d, ids[0], ids[1]), "c14|collision|other|"+ids[0]+" <-> "+ids[1])
	}
	if concat > 0 {
		viol("collision", fmt.Sprintf("%d temp dirs are shared by different tasks whose hash inputs coincide once written without separators, e.g. %s", concat, strings.Join(examples, " ; ")), "c14|collision|concat-ambiguity")
	}
	res.Stats = vs.Stats{Mode: "enumeration", Execs: n + long, Nodes: len(byDir), Transitions: n + long, Closed: true}
	res.NOutcomes = len(byDir)
	res.Extra["identities"] = n
	res.Extra["distinct_temp_dirs"] = len(byDir)
	res.Extra["colliding_dirs"] = collisions
	res.Extra["colliding_dirs_concat_ambiguity"] = concat
	res.Extra["long_names"] = long
}
