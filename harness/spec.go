package main

import (
	"fmt"
	"os"
	"path/filepath"
	"sort"
	"strings"

	sp "github.com/scipipe/scipipe"
	"github.com/scipipe/scipipe/components"
	"vs"
)

// ---------------------------------------------------------------- workflow specs (data)

// OutSpec declares an out-port and its path pattern (SetOut syntax).
type OutSpec struct {
	PhSuffix string `json:"ph_suffix,omitempty"` // the command refers to the output as {o:NAME|%SUFFIX}SUFFIX
	Name     string `json:"name"`
	Pattern  string `json:"pattern"`
	Stream   bool   `json:"stream,omitempty"`
}

// ProcSpec is one process of a scenario.
//
//	kind "func"      : NewProc + CustomExecute body (Go function)
//	kind "cmd"       : NewProc with a vcmd shell command (runs through the exec seam)
//	kind "src"       : components.FileSource(Items...)
//	kind "psrc"      : components.ParamSource(Items...)
//	kind "tagger"    : components.MapToTags (adds tag TagKey=<basename of the path>)
//	kind "substream" : components.StreamToSubStream
//	kind "portless"  : NewProc without any port (body logs start/end only)
type ProcSpec struct {
	Name           string              `json:"name"`
	Kind           string              `json:"kind"`
	Ins            []string            `json:"ins,omitempty"`
	Outs           []OutSpec           `json:"outs,omitempty"`
	Params         []string            `json:"params,omitempty"`
	FromStr        map[string][]string `json:"fromstr,omitempty"`
	Items          []string            `json:"items,omitempty"`
	Cores          int                 `json:"cores,omitempty"`
	TagKey         string              `json:"tagkey,omitempty"`
	EmptyTag       string              `json:"emptytag,omitempty"` // tagger: a second tag of this name with the EMPTY value (an optional field that is empty for this file)
	Join           map[string]string   `json:"join,omitempty"`     // in-port -> separator ({i:x|join:SEP})
	Barrier        string              `json:"barrier,omitempty"`
	NoRead         bool                `json:"noread,omitempty"` // body does not read its inputs
	WriteIdiom     bool                `json:"writeidiom,omitempty"`
	JoinSep        string              `json:"joinsep,omitempty"`         // kind "joiner": {i:x|join:SEP}
	JoinMod        string              `json:"joinmod,omitempty"`         // kind "joiner": extra modifier (basename, %.txt)
	OutsNotInCmd   bool                `json:"outs_not_in_cmd,omitempty"` // out-ports declared by SetOut only, absent from the command pattern
	BarrierOnly    []string            `json:"barrier_only,omitempty"`    // only tasks whose key contains one of these take part in the barrier
	FromStrLate    bool                `json:"fromstr_late,omitempty"`    // apply FromStr after the edges
	Prepend        string              `json:"prepend,omitempty"`         // Process.Prepend (a launcher put in front of the command)
	JoinHdr        bool                `json:"joinhdr,omitempty"`         // kind "joiner": a further, ordinary in-port hdr
	JoinSep2       string              `json:"joinsep2,omitempty"`        // kind "joiner": separator of a second joined in-port y
	CmdSuffix      string              `json:"cmdsuffix,omitempty"`
	ParamsNotInCmd bool                `json:"params_not_in_cmd,omitempty"` // parameter ports are created with InParam(), used in SetOut only
	BarrierEnd     []string            `json:"barrier_end,omitempty"`       // members whose key contains one of these wait at the END of their body instead of its start
	ZeroCores      bool                `json:"zero_cores,omitempty"`        // CoresPerTask = 0: its tasks take no slot
	LinkOut        bool                `json:"linkout,omitempty"`           // the command makes its output a SYMBOLIC LINK (ln -s <absolute path of a file it wrote elsewhere> out)
	AppendOut      bool                `json:"appendout,omitempty"`         // the command APPENDS to its output in two steps (echo a >> f; echo b >> f) instead of truncating it
	DirOut         bool                `json:"dirout,omitempty"`            // the out-port "out" is a DIRECTORY holding two files
}

type Edge struct {
	From     string `json:"from"`
	FromPort string `json:"fromport"`
	To       string `json:"to"`
	ToPort   string `json:"toport"`
	Param    bool   `json:"param,omitempty"`
}

type WSpec struct {
	Name          string            `json:"name"`
	Procs         []ProcSpec        `json:"procs"`
	Edges         []Edge            `json:"edges"`
	MaxTasks      int               `json:"maxtasks"`
	Buf           int               `json:"buf"`
	RunTo         []string          `json:"runto,omitempty"`
	RunToHow      string            `json:"runtohow,omitempty"`       // "name" | "regex" | "procs"
	Direct        string            `json:"direct,omitempty"`         // narrow-seam driver instead of a workflow (direct.go)
	MkDirs        []string          `json:"mkdirs,omitempty"`         // directories created before the run
	UndoEdges     []Edge            `json:"undo_edges,omitempty"`     // file edges that are connected and then taken apart again (public Disconnect on both ports)
	PreFiles      map[string]string `json:"prefiles,omitempty"`       // other regular files present before the run
	Symlinks      map[string]string `json:"symlinks,omitempty"`       // symbolic links (name -> target) present before the run
	PartialUnits  []string          `json:"partial_units,omitempty"`  // C02 histories: also pre-create only these out-ports of a multi-output task
	SourceContent map[string]string `json:"source_content,omitempty"` // source files whose content is not their own path
	Sources       []string          `json:"-"`                        // files created before the run (content = path)
}

func (w *WSpec) proc(name string) *ProcSpec {
	if w == nil {
		return nil // the command hook of a native run has no scenario description
	}
	for i := range w.Procs {
		if w.Procs[i].Name == name {
			return &w.Procs[i]
		}
	}
	return nil
}

// SourceFiles: every item of every "src" process.
func (w *WSpec) SourceFiles() []string {
	r := []string{}
	for _, p := range w.Procs {
		if p.Kind == "src" {
			r = append(r, p.Items...)
		}
	}
	return r
}

func has(list []string, x string) bool {
	for _, y := range list {
		if x == y {
			return true
		}
	}
	return false
}

// ---------------------------------------------------------------- content function
//
// Every task body computes the same boring function, so that the reference evaluator can
// predict every byte:  content(P.o) = "P.o(" + in-port=content,... + ";" + param=value,... + ")"

func contentOf(proc, port string, ins map[string]string, params map[string]string) string {
	ik := make([]string, 0, len(ins))
	for k := range ins {
		ik = append(ik, k)
	}
	sort.Strings(ik)
	parts := []string{}
	for _, k := range ik {
		parts = append(parts, k+"="+ins[k])
	}
	pk := make([]string, 0, len(params))
	for k := range params {
		pk = append(pk, k)
	}
	sort.Strings(pk)
	pp := []string{}
	for _, k := range pk {
		pp = append(pp, k+"="+params[k])
	}
	return proc + "." + port + "(" + strings.Join(parts, ",") + ";" + strings.Join(pp, ",") + ")"
}

// cwdPrefix: the scratch directory of the executions + "/"; absolute paths below it are
// written relative in task keys and in the reference model.
var cwdPrefix string

func normPath(p string) string {
	if cwdPrefix != "" && strings.HasPrefix(p, cwdPrefix) {
		return p[len(cwdPrefix):]
	}
	return p
}

func taskKey(proc string, ins map[string]string, params map[string]string) string {
	if cwdPrefix != "" {
		n := map[string]string{}
		for k, v := range ins {
			n[k] = normPath(v)
		}
		ins = n
	}
	ik := make([]string, 0, len(ins))
	for k := range ins {
		ik = append(ik, k)
	}
	sort.Strings(ik)
	parts := []string{}
	for _, k := range ik {
		parts = append(parts, k+"="+ins[k])
	}
	pk := make([]string, 0, len(params))
	for k := range params {
		pk = append(pk, k)
	}
	sort.Strings(pk)
	for _, k := range pk {
		parts = append(parts, k+":"+params[k])
	}
	return proc + "[" + strings.Join(parts, ",") + "]"
}

// ---------------------------------------------------------------- building the real workflow

type built struct {
	wf    *sp.Workflow
	procs map[string]sp.WorkflowProcess
}

// cmdPattern of a "cmd" process:  vcmd NAME o=<{o:o}>... -- i=<{i:i}>... -- p=<{p:p}>...
func cmdPattern(p *ProcSpec) string {
	parts := []string{"vcmd", p.Name}
	if p.DirOut {
		parts[0] = "vdir"
	}
	for _, o := range p.Outs {
		ph := "{o:" + o.Name + "}"
		if o.Stream {
			ph = "{os:" + o.Name + "}"
		}
		if p.OutsNotInCmd {
			// the out-port exists only through SetOut: the command derives the file name itself
			// (here: from the base name of its input, which is what the pattern {i:in}.NAME gives)
			ph = strings.Replace(o.Pattern, "{i:in}", "{i:in|basename}", 1)
		}
		if o.PhSuffix != "" {
			// the out-placeholder written with a modifier: strip a suffix and put it back
			ph = "{o:" + o.Name + "|%" + o.PhSuffix + "}" + o.PhSuffix
		}
		parts = append(parts, o.Name+"="+ph)
	}
	parts = append(parts, "--")
	for _, i := range p.Ins {
		ph := "{i:" + i
		if sep, ok := p.Join[i]; ok {
			ph += "|join:" + sep
		}
		parts = append(parts, i+"="+ph+"}")
	}
	parts = append(parts, "--")
	for _, q := range p.Params {
		parts = append(parts, q+"={p:"+q+"}")
	}
	return strings.Join(parts, " ") + p.CmdSuffix
}

// funcPattern of a "func" process (the command is never executed, it only declares ports)
func funcPattern(p *ProcSpec) string {
	parts := []string{"#"}
	for _, o := range p.Outs {
		parts = append(parts, "{o:"+o.Name+"}")
	}
	for _, i := range p.Ins {
		ph := "{i:" + i
		if sep, ok := p.Join[i]; ok {
			ph += "|join:" + sep
		}
		parts = append(parts, ph+"}")
	}
	if !p.ParamsNotInCmd {
		for _, q := range p.Params {
			parts = append(parts, "{p:"+q+"}")
		}
	}
	return strings.Join(parts, " ") + p.CmdSuffix
}

func (w *WSpec) build(env *Env) *built {
	os.Setenv("SCIPIPE_BUFSIZE", fmt.Sprint(w.Buf))
	wf := sp.NewWorkflowCustomLogFile(w.Name, w.MaxTasks, "/dev/null")
	b := &built{wf: wf, procs: map[string]sp.WorkflowProcess{}}
	for i := range w.Procs {
		ps := &w.Procs[i]
		switch ps.Kind {
		case "src":
			b.procs[ps.Name] = components.NewFileSource(wf, ps.Name, ps.Items...)
		case "psrc":
			b.procs[ps.Name] = components.NewParamSource(wf, ps.Name, ps.Items...)
		case "tagger":
			key, empty := ps.TagKey, ps.EmptyTag
			b.procs[ps.Name] = components.NewMapToTags(wf, ps.Name, func(ip *sp.FileIP) map[string]string {
				m := map[string]string{key: filepath.Base(ip.Path())}
				if empty != "" {
					m[empty] = ""
				}
				return m
			})
		case "substream":
			b.procs[ps.Name] = components.NewStreamToSubStream(wf, ps.Name)
		case "splitter":
			b.procs[ps.Name] = components.NewFileSplitter(wf, ps.Name, 1)
		case "portless":
			p := wf.NewProc(ps.Name, "# nothing")
			name := ps.Name
			p.CustomExecute = func(t *sp.Task) {
				vs.Event("S:" + name + "[]")
				vs.Event("E:" + name + "[]")
			}
			if ps.Cores > 0 {
				p.CoresPerTask = ps.Cores
			}
			b.procs[ps.Name] = p
		case "func", "cmd":
			var p *sp.Process
			if ps.Kind == "cmd" {
				p = wf.NewProc(ps.Name, cmdPattern(ps))
				if ps.Prepend != "" {
					p.Prepend = ps.Prepend
				}
			} else {
				p = wf.NewProc(ps.Name, funcPattern(ps))
				p.CustomExecute = env.funcBody(ps)
			}
			for _, o := range ps.Outs {
				if o.Pattern != "" && !strings.HasPrefix(o.Pattern, "default:") {
					p.SetOut(o.Name, o.Pattern)
				}
			}
			if ps.Cores > 0 {
				p.CoresPerTask = ps.Cores
			}
			if ps.ZeroCores {
				p.CoresPerTask = 0
			}
			if !ps.FromStrLate {
				for port, vals := range ps.FromStr {
					p.InParam(port).FromStr(vals...)
				}
			}
			b.procs[ps.Name] = p
		case "joiner":
			ph := "{i:x|join:" + ps.JoinSep
			if ps.JoinMod != "" {
				ph += "|" + ps.JoinMod
			}
			pat := "vjoin {o:out} [" + ph + "}]"
			if ps.JoinSep2 != "" {
				pat += " [{i:y|join:" + ps.JoinSep2 + "}]"
			}
			if ps.JoinHdr {
				pat += " [{i:hdr}]"
			}
			p := wf.NewProc(ps.Name, pat)
			p.SetOut("out", "joined.txt")
			b.procs[ps.Name] = p
		case "ppass":
			b.procs[ps.Name] = newPPass(wf, ps.Name)
		case "psplit":
			b.procs[ps.Name] = newPSplit(wf, ps.Name)
		case "recorder":
			b.procs[ps.Name] = newRecorder(wf, ps.Name)
		default:
			panic("unknown proc kind " + ps.Kind)
		}
	}
	for ei, e := range w.Edges {
		from, to := b.procs[e.From], b.procs[e.To]
		if e.Param {
			// both directions of wiring are public API: every other edge is connected from the out side
			if ei%2 == 1 {
				from.OutParamPorts()[e.FromPort].To(to.InParamPorts()[e.ToPort])
			} else {
				to.InParamPorts()[e.ToPort].From(from.OutParamPorts()[e.FromPort])
			}
		} else {
			ip := to.InPorts()[e.ToPort]
			op := from.OutPorts()[e.FromPort]
			if ip == nil || op == nil {
				panic(fmt.Sprintf("bad edge %+v", e))
			}
			if ei%2 == 1 {
				op.To(ip)
			} else {
				ip.From(op)
			}
		}
	}
	for _, e := range w.UndoEdges {
		from, to := b.procs[e.From], b.procs[e.To]
		ip, op := to.InPorts()[e.ToPort], from.OutPorts()[e.FromPort]
		if ip == nil || op == nil {
			panic(fmt.Sprintf("bad undo edge %+v", e))
		}
		ip.From(op)
		op.Disconnect(ip.Name())
		ip.Disconnect(op.Name())
	}
	for i := range w.Procs {
		ps := &w.Procs[i]
		if ps.FromStrLate {
			// literal values connected AFTER the process connections of the same port (the feeder
			// goroutine disconnects itself when done; a port it leaves empty is closed)
			ports := []string{}
			for port := range ps.FromStr {
				ports = append(ports, port)
			}
			sort.Strings(ports)
			for _, port := range ports {
				b.procs[ps.Name].InParamPorts()[port].FromStr(ps.FromStr[port]...)
			}
		}
	}
	return b
}

func (w *WSpec) run(b *built) {
	if len(w.RunTo) == 0 {
		b.wf.Run()
		return
	}
	switch w.RunToHow {
	case "regex-ci":
		// targets given case-insensitively with an inline flag, followed by case-SENSITIVE decoy
		// patterns that match no process: the patterns are independent of each other
		pats := []string{}
		for _, n := range w.RunTo {
			pats = append(pats, "(?i)^"+strings.ToUpper(n)+"$")
		}
		for _, ps := range w.Procs {
			if !has(w.RunTo, ps.Name) {
				pats = append(pats, "^"+strings.ToUpper(ps.Name)+"$")
			}
		}
		b.wf.RunToRegex(pats...)
	case "regex-empty":
		b.wf.RunToRegex()
	case "regex":
		pats := []string{}
		for _, n := range w.RunTo {
			pats = append(pats, "^"+n+"$")
		}
		b.wf.RunToRegex(pats...)
	case "procs":
		ps := []sp.WorkflowProcess{}
		for _, n := range w.RunTo {
			ps = append(ps, b.procs[n])
		}
		b.wf.RunToProcs(ps...)
	default:
		b.wf.RunTo(w.RunTo...)
	}
}

// ---------------------------------------------------------------- recorder process

// recorder is an ordinary custom WorkflowProcess that notes what arrives on its in-port.
type recorder struct {
	sp.BaseProcess
	reads bool // open every received file on receipt (what is handed on must be readable at the path it names)
}

func newRecorder(wf *sp.Workflow, name string) *recorder {
	p := &recorder{BaseProcess: sp.NewBaseProcess(wf, name)}
	p.InitInPort(p, "in")
	p.InitOutPort(p, "done") // never used: several recorders without out-ports would all claim to be the driver
	wf.AddProc(p)
	return p
}

func (p *recorder) Run() {
	defer p.CloseAllOutPorts()
	for ip := range p.InPort("in").Chan {
		vs.Note("recv:" + p.Name() + ":" + ip.Path())
		if p.reads {
			if _, err := vs.FSReadFile(ip.Path()); err != nil {
				vs.Note("unreadable:" + p.Name() + ":" + ip.Path())
			}
		}
	}
}

// ppass is an ordinary custom process that forwards parameters from its param in-port to its
// param out-port (a parameter producer that itself has an upstream).
type ppass struct {
	sp.BaseProcess
}

func newPPass(wf *sp.Workflow, name string) *ppass {
	p := &ppass{BaseProcess: sp.NewBaseProcess(wf, name)}
	p.InitInParamPort(p, "in")
	p.InitOutParamPort(p, "out")
	wf.AddProc(p)
	return p
}

func (p *ppass) Run() {
	defer p.CloseAllOutPorts()
	for v := range p.InParamPort("in").Chan {
		p.OutParamPort("out").Send(v)
	}
}

// psplit forwards every parameter it receives to BOTH of its param out-ports (out, then out2).
type psplit struct {
	sp.BaseProcess
}

func newPSplit(wf *sp.Workflow, name string) *psplit {
	p := &psplit{BaseProcess: sp.NewBaseProcess(wf, name)}
	p.InitInParamPort(p, "in")
	p.InitOutParamPort(p, "out")
	p.InitOutParamPort(p, "out2")
	wf.AddProc(p)
	return p
}

func (p *psplit) Run() {
	defer p.CloseAllOutPorts()
	for v := range p.InParamPort("in").Chan {
		p.OutParamPort("out").Send(v)
		p.OutParamPort("out2").Send(v)
	}
}

// ---------------------------------------------------------------- reference evaluation

// RefTask is one task the reference model expects.
type RefTask struct {
	Proc   string
	Ins    map[string]string // port -> path
	Params map[string]string
	Outs   map[string]string // port -> path
	Key    string
	Deps   []string // keys of the tasks that produce its inputs
}

// Ref is the sequential reference evaluation of a spec.
type Ref struct {
	Tasks     []*RefTask
	ByKey     map[string]*RefTask
	Files     map[string]string   // final path -> content (sources included)
	Emit      map[string][]string // "proc.port" -> emitted paths in order (single-upstream chains only)
	Ran       map[string]bool     // processes that run (RunTo closure)
	OrderOK   map[string]bool     // "proc.port" has a deterministic emission order
	DirOuts   map[string][]string // output paths that are directories -> the files they hold
	CompFiles map[string]string   // files finalized by a file-writing component (FileSplitter parts): path -> complete content
}

// refTags: tags carried by a path in the reference evaluation under way (a tagger puts them on the paths it
// consumes, task outputs inherit their inputs'); used for the default output names, which contain them
var refTags = map[string]map[string]string{}

func expandPattern(pat string, proc string, ins map[string]string, params map[string]string) string {
	if strings.HasPrefix(pat, "default:") {
		// no SetOut: the documented default name = base names of the inputs (in-port names sorted),
		// process name, name_value of every parameter (names sorted), port name
		pcs := []string{}
		ports := []string{}
		for port := range ins {
			ports = append(ports, port)
		}
		sort.Strings(ports)
		for _, port := range ports {
			pcs = append(pcs, filepath.Base(ins[port]))
		}
		pcs = append(pcs, proc)
		names := []string{}
		for k := range params {
			names = append(names, k)
		}
		sort.Strings(names)
		for _, k := range names {
			pcs = append(pcs, k+"_"+params[k])
		}
		// task tags are named <in-port>.<tag>
		tnames, tvals := []string{}, map[string]string{}
		for _, port := range ports {
			for k, v := range refTags[ins[port]] {
				tnames = append(tnames, port+"."+k)
				tvals[port+"."+k] = v
			}
		}
		sort.Strings(tnames)
		for _, k := range tnames {
			pcs = append(pcs, k+"_"+tvals[k])
		}
		pcs = append(pcs, strings.TrimPrefix(pat, "default:"))
		return strings.Join(pcs, ".")
	}
	// the subset of SetOut syntax the scenarios use: {i:x} {p:x} with optional |basename
	out := pat
	for port, path := range ins {
		out = strings.ReplaceAll(out, "{i:"+port+"}", path)
		out = strings.ReplaceAll(out, "{i:"+port+"|basename}", filepath.Base(path))
	}
	for k, v := range params {
		out = strings.ReplaceAll(out, "{p:"+k+"}", v)
	}
	return out
}

// upstreamClosure: processes reachable backwards from the targets over file and param edges.
func (w *WSpec) upstreamClosure(targets []string) map[string]bool {
	ran := map[string]bool{}
	var visit func(n string)
	visit = func(n string) {
		if ran[n] {
			return
		}
		ran[n] = true
		for _, e := range w.Edges {
			if e.To == n {
				visit(e.From)
			}
		}
	}
	for _, t := range targets {
		visit(t)
	}
	return ran
}

func (w *WSpec) reference() *Ref { return w.referencePre(nil) }

// referencePre: reference evaluation with pre-existing files (path -> content). A task one
// of whose outputs pre-exists is not executed; pre-existing bytes propagate downstream.
func (w *WSpec) referencePre(pre map[string]string) *Ref {
	refTags = map[string]map[string]string{}
	r := &Ref{ByKey: map[string]*RefTask{}, Files: map[string]string{}, Emit: map[string][]string{}, Ran: map[string]bool{}, OrderOK: map[string]bool{}, DirOuts: map[string][]string{}, CompFiles: map[string]string{}}
	if len(w.RunTo) > 0 {
		r.Ran = w.upstreamClosure(w.RunTo)
	} else {
		for _, p := range w.Procs {
			r.Ran[p.Name] = true
		}
	}
	producer := map[string]string{} // path -> task key
	preDir := map[string]bool{}     // directory outputs that pre-exist (with some of their files)
	paramEmit := map[string][]string{}
	done := map[string]bool{}
	for len(done) < len(w.Procs) {
		progress := false
		for i := range w.Procs {
			p := &w.Procs[i]
			if done[p.Name] {
				continue
			}
			ready := true
			for _, e := range w.Edges {
				if e.To == p.Name && !done[e.From] {
					ready = false
				}
			}
			if !ready {
				continue
			}
			done[p.Name] = true
			progress = true
			if !r.Ran[p.Name] {
				continue
			}
			// streams per in-port (concatenation of upstream emissions; order deterministic only
			// with a single upstream)
			inStream := map[string][]string{}
			orderOK := true
			for _, port := range p.Ins {
				n := 0
				for _, e := range w.Edges {
					if e.To == p.Name && e.ToPort == port && !e.Param && r.Ran[e.From] {
						inStream[port] = append(inStream[port], r.Emit[e.From+"."+e.FromPort]...)
						if !r.OrderOK[e.From+"."+e.FromPort] {
							orderOK = false
						}
						n++
					}
				}
				if n > 1 {
					orderOK = false
				}
			}
			parStream := map[string][]string{}
			for _, port := range p.Params {
				if v, ok := p.FromStr[port]; ok {
					parStream[port] = append(parStream[port], v...)
				}
				for _, e := range w.Edges {
					if e.To == p.Name && e.ToPort == port && e.Param {
						parStream[port] = append(parStream[port], paramEmit[e.From+"."+e.FromPort]...)
					}
				}
			}
			switch p.Kind {
			case "src":
				r.Emit[p.Name+".out"] = append([]string{}, p.Items...)
				r.OrderOK[p.Name+".out"] = true
				for _, it := range p.Items {
					r.Files[it] = it
					if c, ok := w.SourceContent[it]; ok {
						r.Files[it] = c
					}
				}
			case "psrc":
				paramEmit[p.Name+".out"] = append([]string{}, p.Items...)
			case "psplit":
				for _, e := range w.Edges {
					if e.To == p.Name && e.Param {
						paramEmit[p.Name+".out"] = append(paramEmit[p.Name+".out"], paramEmit[e.From+"."+e.FromPort]...)
						paramEmit[p.Name+".out2"] = append(paramEmit[p.Name+".out2"], paramEmit[e.From+"."+e.FromPort]...)
					}
				}
			case "ppass":
				for _, e := range w.Edges {
					if e.To == p.Name && e.Param {
						paramEmit[p.Name+".out"] = append(paramEmit[p.Name+".out"], paramEmit[e.From+"."+e.FromPort]...)
					}
				}
			case "tagger":
				r.Emit[p.Name+".out"] = inStream["in"]
				r.OrderOK[p.Name+".out"] = orderOK
				for _, path := range inStream["in"] {
					nt := map[string]string{}
					for k, v := range refTags[path] {
						nt[k] = v
					}
					nt[p.TagKey] = filepath.Base(path)
					if p.EmptyTag != "" {
						nt[p.EmptyTag] = ""
					}
					refTags[path] = nt
				}
			case "splitter":
				// one line per part (+ the trailing part FileSplitter always writes after the last line)
				for _, in := range inStream["file"] {
					lines := strings.Split(strings.TrimSuffix(r.Files[in], "\n"), "\n")
					if r.Files[in] == "" {
						lines = nil
					}
					for k, l := range lines {
						part := fmt.Sprintf("%s.split_%d", in, k+1)
						r.Files[part] = l + "\n"
						r.CompFiles[part] = l + "\n"
						r.Emit[p.Name+".split_file"] = append(r.Emit[p.Name+".split_file"], part)
					}
					last := fmt.Sprintf("%s.split_%d", in, len(lines)+1)
					r.Files[last] = ""
					r.CompFiles[last] = ""
					r.Emit[p.Name+".split_file"] = append(r.Emit[p.Name+".split_file"], last)
				}
				r.OrderOK[p.Name+".split_file"] = orderOK
			case "joiner":
				members := []string{}
				members2 := []string{}
				for _, e := range w.Edges {
					if e.To == p.Name {
						if e.ToPort == "hdr" { // ordinary in-port fed directly
							members2 = append(members2, r.Emit[e.From+"."+e.FromPort]...)
							continue
						}
						// the sub-stream carrier comes from a "substream" process: its members are that process' input
						for _, e2 := range w.Edges {
							if e2.To == e.From {
								if e.ToPort == "y" {
									members2 = append(members2, r.Emit[e2.From+"."+e2.FromPort]...)
								} else {
									members = append(members, r.Emit[e2.From+"."+e2.FromPort]...)
								}
							}
						}
					}
				}
				content := ""
				for _, m := range append(append([]string{}, members...), members2...) {
					content += r.Files[m] + "\n"
				}
				r.Emit[p.Name+".members2"] = members2
				t := &RefTask{Proc: p.Name, Key: taskKey(p.Name, nil, nil), Ins: map[string]string{}, Params: map[string]string{}, Outs: map[string]string{"out": "joined.txt"}}
				r.Files["joined.txt"] = content
				r.Tasks = append(r.Tasks, t)
				r.ByKey[t.Key] = t
				r.Emit[p.Name+".members"] = members
			case "direct":
				t := &RefTask{Proc: p.Name, Key: taskKey(p.Name, nil, nil), Ins: map[string]string{}, Params: map[string]string{}, Outs: map[string]string{}}
				r.Tasks = append(r.Tasks, t)
				r.ByKey[t.Key] = t
			case "recorder", "substream":
				// no outputs of their own (substream scenarios are checked by C18's own oracle)
			case "portless":
				t := &RefTask{Proc: p.Name, Key: taskKey(p.Name, nil, nil), Ins: map[string]string{}, Params: map[string]string{}, Outs: map[string]string{}}
				r.Tasks = append(r.Tasks, t)
				r.ByKey[t.Key] = t
			case "func", "cmd":
				n := -1
				for _, port := range p.Ins {
					if n < 0 || len(inStream[port]) < n {
						n = len(inStream[port])
					}
				}
				for _, port := range p.Params {
					if n < 0 || len(parStream[port]) < n {
						n = len(parStream[port])
					}
				}
				if n < 0 {
					n = 1 // no in-ports: runs once
				}
				for k := 0; k < n; k++ {
					t := &RefTask{Proc: p.Name, Ins: map[string]string{}, Params: map[string]string{}, Outs: map[string]string{}}
					inContent := map[string]string{}
					for _, port := range p.Ins {
						path := inStream[port][k]
						t.Ins[port] = path
						inContent[port] = r.Files[path]
						if parts, ok := r.DirOuts[path]; ok {
							inContent[port] = r.Files[parts[0]] + "+" + r.Files[parts[1]]
						}
						if pk, ok := producer[path]; ok {
							t.Deps = append(t.Deps, pk)
						}
					}
					for _, port := range p.Params {
						t.Params[port] = parStream[port][k]
					}
					t.Key = taskKey(p.Name, t.Ins, t.Params)
					for _, o := range p.Outs {
						path := normPath(expandPattern(o.Pattern, p.Name, t.Ins, t.Params))
						if ot := refTags[path]; ot == nil {
							nt := map[string]string{}
							for _, in := range t.Ins {
								for k, v := range refTags[in] {
									nt[k] = v
								}
							}
							if len(nt) > 0 {
								refTags[path] = nt
							}
						}
						t.Outs[o.Name] = path
						if !o.Stream && p.DirOut {
							r.Files[path+"/part1"] = contentOf(p.Name, o.Name+"/part1", inContent, t.Params)
							r.Files[path+"/part2"] = contentOf(p.Name, o.Name+"/part2", inContent, t.Params)
							r.DirOuts[path] = []string{path + "/part1", path + "/part2"}
							for _, f := range r.DirOuts[path] {
								if c, ok := pre[f]; ok {
									r.Files[f] = c
									preDir[path] = true
								}
							}
						} else if !o.Stream {
							r.Files[path] = contentOf(p.Name, o.Name, inContent, t.Params)
						}
						if c, ok := pre[path]; ok {
							r.Files[path] = c
						}
						producer[path] = t.Key
						r.Emit[p.Name+"."+o.Name] = append(r.Emit[p.Name+"."+o.Name], path)
					}
					skip := false
					for _, path := range t.Outs {
						if _, ok := pre[path]; ok || preDir[path] {
							skip = true
						}
					}
					if skip {
						for _, path := range t.Outs {
							for _, f := range r.DirOuts[path] {
								if _, ok := pre[f]; !ok {
									delete(r.Files, f)
								}
							}
							if _, ok := pre[path]; !ok {
								delete(r.Files, path) // the task is not executed: this output never comes into being
							}
						}
					}
					r.Tasks = append(r.Tasks, t)
					r.ByKey[t.Key] = t
				}
				for _, o := range p.Outs {
					r.OrderOK[p.Name+"."+o.Name] = orderOK
				}
			}
		}
		if !progress {
			panic("cyclic spec")
		}
	}
	return r
}
