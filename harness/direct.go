//go:build verif

package main

import (
	"fmt"

	sp "github.com/scipipe/scipipe"
	"vs"
)

// Narrow-seam drivers for the slot protocol (C06 / C07): k ready tasks without any port
// plumbing, through scipipe's public API.
//
//	direct "tasks" : k Tasks built with NewTask, each run by Task.Execute in its own goroutine
//	direct "slots" : k goroutines calling Workflow.IncConcurrentTasks / DecConcurrentTasks

func directSpec(p ScenParams) *WSpec {
	w := &WSpec{Name: "w", MaxTasks: p.Max, Buf: p.Buf, Direct: p.Graph}
	for i, c := range p.Cores {
		w.Procs = append(w.Procs, ProcSpec{Name: fmt.Sprintf("t%d", i), Kind: "direct", Cores: c})
	}
	if p.Extra == "barrier" {
		for i := range w.Procs {
			w.Procs[i].Barrier = "b"
		}
	}
	return w
}

func (r *runner) directBody() {
	w := r.spec
	wf := sp.NewWorkflowCustomLogFile(w.Name, w.MaxTasks, "/dev/null")
	n := len(w.Procs)
	body := func(ps *ProcSpec) {
		key := ps.Name + "[]"
		vs.Event("S:" + key)
		if ps.Barrier != "" {
			r.env.barrierWait(ps.Barrier, n)
		}
		vs.Event("E:" + key)
	}
	switch w.Direct {
	case "tasks":
		holder := wf.NewProc("holder", "# nothing")
		tasks := []*sp.Task{}
		for i := range w.Procs {
			ps := &w.Procs[i]
			t := sp.NewTask(wf, holder, ps.Name, "# nothing", map[string]*sp.FileIP{}, map[string]func(*sp.Task) string{}, map[string]*sp.PortInfo{}, map[string]string{}, map[string]string{}, "", func(t *sp.Task) { body(ps) }, ps.Cores)
			tasks = append(tasks, t)
			go t.Execute()
		}
		for _, t := range tasks {
			<-t.Done
		}
	case "slots":
		done := make(chan int, n)
		for i := range w.Procs {
			ps := &w.Procs[i]
			i := i
			go func() {
				wf.IncConcurrentTasks(ps.Cores)
				body(ps)
				wf.DecConcurrentTasks(ps.Cores)
				done <- i
			}()
		}
		for range w.Procs {
			<-done
		}
	}
	vs.Event("RET")
	r.ret = vs.Snapshot()
	vs.Note("COMPLETED")
}
