//go:build verif

package main

import (
	"fmt"

	sp "github.com/scipipe/scipipe"
	"vs"
)

// Narrow-seam drivers for the slot protocol (C06 / C07): k ready tasks without any port
// plumbing, through scipipe's public API.
//
//	direct "tasks" : k Tasks built with NewTask, each run by Task.Execute in its own goroutine
//	direct "slots" : k goroutines calling Workflow.IncConcurrentTasks / DecConcurrentTasks
//	direct "tasks2wf" : TWO workflows in one program (each with its own slots): all tasks but the last
//	                    belong to workflow A, the last to workflow B; the first and the last task
//	                    rendezvous on a barrier (B's free slot must be usable while A's are taken)
//	direct "nested" : every task of the outer workflow runs an inner workflow (its own slots) with
//	                  one task, inside its body

func directSpec(p ScenParams) *WSpec {
	w := &WSpec{Name: "w", MaxTasks: p.Max, Buf: p.Buf, Direct: p.Graph}
	for i, c := range p.Cores {
		w.Procs = append(w.Procs, ProcSpec{Name: fmt.Sprintf("t%d", i), Kind: "direct", Cores: c})
	}
	if p.Extra == "barrier" {
		for i := range w.Procs {
			w.Procs[i].Barrier = "b"
		}
	}
	if p.Graph == "tasks2wf" {
		w.Procs[0].Barrier = "b"
		w.Procs[len(w.Procs)-1].Barrier = "b"
	}
	return w
}

func (r *runner) directBody() {
	w := r.spec
	wf := sp.NewWorkflowCustomLogFile(w.Name, w.MaxTasks, "/dev/null")
	n := len(w.Procs)
	body := func(ps *ProcSpec) {
		key := ps.Name + "[]"
		vs.Event("S:" + key)
		if ps.Barrier != "" {
			r.env.barrierWait(ps.Barrier, n)
		}
		vs.Event("E:" + key)
	}
	switch w.Direct {
	case "tasks":
		holder := wf.NewProc("holder", "# nothing")
		tasks := []*sp.Task{}
		for i := range w.Procs {
			ps := &w.Procs[i]
			t := sp.NewTask(wf, holder, ps.Name, "# nothing", map[string]*sp.FileIP{}, map[string]func(*sp.Task) string{}, map[string]*sp.PortInfo{}, map[string]string{}, map[string]string{}, "", func(t *sp.Task) { body(ps) }, ps.Cores)
			tasks = append(tasks, t)
			go t.Execute()
		}
		for _, t := range tasks {
			<-t.Done
		}
	case "tasks2wf":
		body2 := func(ps *ProcSpec) {
			key := ps.Name + "[]"
			vs.Event("S:" + key)
			if ps.Barrier != "" {
				r.env.barrierWait(ps.Barrier, 2)
			}
			vs.Event("E:" + key)
		}
		wfB := sp.NewWorkflowCustomLogFile(w.Name+"b", w.MaxTasks, "/dev/null")
		holderA, holderB := wf.NewProc("holder", "# nothing"), wfB.NewProc("holder", "# nothing")
		tasks := []*sp.Task{}
		for i := range w.Procs {
			ps := &w.Procs[i]
			twf, th := wf, holderA
			if i == n-1 {
				twf, th = wfB, holderB
			}
			t := sp.NewTask(twf, th, ps.Name, "# nothing", map[string]*sp.FileIP{}, map[string]func(*sp.Task) string{}, map[string]*sp.PortInfo{}, map[string]string{}, map[string]string{}, "", func(t *sp.Task) { body2(ps) }, ps.Cores)
			tasks = append(tasks, t)
			go t.Execute()
		}
		for _, t := range tasks {
			<-t.Done
		}
	case "nested":
		holder := wf.NewProc("holder", "# nothing")
		tasks := []*sp.Task{}
		for i := range w.Procs {
			ps := &w.Procs[i]
			t := sp.NewTask(wf, holder, ps.Name, "# nothing", map[string]*sp.FileIP{}, map[string]func(*sp.Task) string{}, map[string]*sp.PortInfo{}, map[string]string{}, map[string]string{}, "", func(t *sp.Task) {
				vs.Event("S:" + ps.Name + "[]")
				inner := sp.NewWorkflowCustomLogFile(w.Name+"-in-"+ps.Name, 1, "/dev/null")
				ih := inner.NewProc("holder", "# nothing")
				it := sp.NewTask(inner, ih, ps.Name+"i", "# nothing", map[string]*sp.FileIP{}, map[string]func(*sp.Task) string{}, map[string]*sp.PortInfo{}, map[string]string{}, map[string]string{}, "", func(t *sp.Task) {}, 1)
				go it.Execute()
				<-it.Done
				vs.Event("E:" + ps.Name + "[]")
			}, ps.Cores)
			tasks = append(tasks, t)
			go t.Execute()
		}
		for _, t := range tasks {
			<-t.Done
		}
	case "slots":
		done := make(chan int, n)
		for i := range w.Procs {
			ps := &w.Procs[i]
			i := i
			go func() {
				wf.IncConcurrentTasks(ps.Cores)
				body(ps)
				wf.DecConcurrentTasks(ps.Cores)
				done <- i
			}()
		}
		for range w.Procs {
			<-done
		}
	}
	vs.Event("RET")
	r.ret = vs.Snapshot()
	vs.Note("COMPLETED")
}
