//go:build verif

package main

import (
	"encoding/json"
	"fmt"
	"os"
	"path/filepath"
	"sort"
	"strconv"
	"strings"
	"time"

	sp "github.com/scipipe/scipipe"
	"github.com/scipipe/scipipe/components"
	"vs"
)

// C19: bundled components compute what they advertise. Every scenario wires real
// components to recorder processes (ordinary custom processes that note what arrives) and
// is explored over all schedules; the oracle is a boring reference computation.

func init() { specialJobs["comp"] = runCompJob }

// precorder notes the parameters arriving on its param in-port.
type precorder struct {
	sp.BaseProcess
}

func newPRecorder(wf *sp.Workflow, name string) *precorder {
	p := &precorder{BaseProcess: sp.NewBaseProcess(wf, name)}
	p.InitInParamPort(p, "in")
	p.InitOutPort(p, "done") // never used: several recorders without out-ports would all claim to be the driver
	wf.AddProc(p)
	return p
}

func (p *precorder) Run() {
	defer p.CloseAllOutPorts()
	for v := range p.InParamPort("in").Chan {
		vs.Note("recv:" + p.Name() + ":" + v)
	}
}

func parseInts(s string) []int {
	r := []int{}
	for _, f := range strings.Split(s, ",") {
		if f == "" {
			continue
		}
		n, _ := strconv.Atoi(f)
		r = append(r, n)
	}
	return r
}

// received: recorder name -> sequence
func received(notes []string) map[string][]string {
	m := map[string][]string{}
	for _, n := range notes {
		if strings.HasPrefix(n, "recv:") {
			f := strings.SplitN(n, ":", 3)
			m[f[1]] = append(m[f[1]], f[2])
		}
	}
	return m
}

// unreducedOnly: the engine error names a construct only the unreduced explorer accepts.
func unreducedOnly(e string) bool {
	return strings.Contains(e, "unsupported: blocking select with a send case") || strings.Contains(e, "unsupported: select with default over an unbuffered channel")
}

type compScenario struct {
	desc    string
	setup   func()                          // files to create (cwd is the fresh scratch dir)
	build   func(wf *sp.Workflow)           // wire the components
	oracle  func(o *Obs, add func(class, detail string)) // judge one completed execution
	maxT    int
}

func runCompJob(job *Job, res *Result) {
	if job.Base == "" {
		job.Base = fmt.Sprintf("/dev/shm/vw-%d", os.Getpid())
	}
	sc := compScenarios(job.Args)
	if sc == nil {
		res.Error = "unknown component scenario " + fmt.Sprint(job.Args)
		return
	}
	res.Scenario = sc.desc
	if job.ForceAll >= 0 {
		res.Scenario += fmt.Sprintf("/maporder=%d", job.ForceAll)
	}
	for k, v := range job.ForceOrder {
		res.Scenario += fmt.Sprintf("/site%s=%d", k, v)
	}
	dir := filepath.Join(job.Base, "e")
	vs.EventsDependent = false
	vs.ExecMode = "real"
	vs.ForceAll = job.ForceAll
	if job.ForceOrder != nil {
		vs.ForceOrder = job.ForceOrder
	}
	setup := func() {
		os.Chdir("/")
		os.RemoveAll(dir)
		os.MkdirAll(dir, 0777)
		os.Chdir(dir)
		vs.Cwd = dir
		vs.TmpRoot = filepath.Join(job.Base, "tmp")
		os.MkdirAll(vs.TmpRoot, 0777)
		if sc.setup != nil {
			sc.setup()
		}
		errLog.Reset()
	}
	maxT := sc.maxT
	if maxT == 0 {
		maxT = 2
	}
	body := func() {
		os.Setenv("SCIPIPE_BUFSIZE", job.Args["buf"])
		if job.Args["buf"] == "" {
			os.Setenv("SCIPIPE_BUFSIZE", "1")
		}
		wf := sp.NewWorkflowCustomLogFile("w", maxT, "/dev/null")
		sc.build(wf)
		wf.Run()
		vs.Note("COMPLETED")
	}
	seen := map[string]bool{}
	outcomes := map[string]bool{}
	sites := map[string]vs.MapSite{}
	var deadline time.Time
	if job.Budget > 0 {
		deadline = time.Now().Add(time.Duration(job.Budget * float64(time.Second)))
	}
	report := func(v Violation, s *vs.Sched) {
		v.Job = job.ID
		v.Prop = job.Prop
		if v.Signature == "" {
			v.Signature = res.Scenario + "|" + v.Class + "|" + v.Detail
		}
		if seen[v.Signature] {
			return
		}
		seen[v.Signature] = true
		if s != nil && job.ReplayDir != "" {
			os.MkdirAll(job.ReplayDir, 0777)
			j := *job
			j.Mode = "replay"
			j.PureBuf = vs.PureBuf
			j.Replay = s.ReplayChoices()
			j.Base = ""
			fn := filepath.Join(job.ReplayDir, fmt.Sprintf("%s-%x.json", sanitize(job.ID), hash32(v.Signature)))
			b, _ := json.MarshalIndent(map[string]interface{}{"job": j, "violation": v, "notes": s.NoteList()}, "", " ")
			os.WriteFile(fn, b, 0644)
			v.Replay = fn
		}
		res.Violations = append(res.Violations, v)
	}
	visit := func(s *vs.Sched) bool {
		o := &Obs{S: s, Outcome: s.Outcome, Events: s.EventList(), Notes: s.NoteList(), Tree: vs.ReadTree("."), ErrLog: errLog.String()}
		if strings.Contains(o.Outcome, "replay divergence") || strings.Contains(o.Outcome, "panic:vs:") || strings.HasPrefix(o.Outcome, "unsupported:") {
			res.Error = "engine error: " + o.Outcome
			return false
		}
		for _, ms := range s.MapSites() {
			sites[ms.ID] = ms
		}
		rc := received(o.Notes)
		keys := []string{}
		for k := range rc {
			keys = append(keys, k+"="+strings.Join(rc[k], ","))
		}
		sort.Strings(keys)
		outcomes[o.Outcome+"|"+strings.Join(keys, ";")] = true
		if len(res.Samples) < 2 {
			res.Samples = append(res.Samples, fmt.Sprintf("schedule[%s] received[%s] outcome[%s]", s.ScheduleString(30), strings.Join(keys, ";"), o.Outcome))
		}
		add := func(class, detail string) { report(Violation{Class: class, Detail: detail}, s) }
		switch {
		case o.Outcome == "deadlock":
			add("deadlock", strings.Join(s.Deadlocked, " "))
		case o.Outcome == "horizon":
			add("horizon", "execution exceeded the step horizon")
		case o.Outcome != "" && job.Args["expect_fail"] == "":
			add("unexpected-outcome", o.Outcome+" "+firstLine(o.ErrLog))
		case o.Outcome == "":
			sc.oracle(o, add)
		}
		return len(res.Violations) < 10
	}
	switch job.Mode {
	case "replay":
		s := vs.Replay(setup, body, job.Replay)
		visit(s)
		res.Stats = vs.Stats{Mode: "replay", Execs: 1, Transitions: s.StepCount(), Nodes: s.StepCount(), Closed: true}
	case "delay":
		res.Stats = vs.ExploreNaive(setup, body, visit, false, job.Delay, deadline)
	default:
		res.Stats = vs.ExploreDPOR(setup, body, visit, deadline)
		if unreducedOnly(res.Error) {
			// a construct the reduced explorer is not validated for: the unreduced enumeration decides
			res.Error = ""
			res.Violations = nil
			for k := range outcomes {
				delete(outcomes, k)
			}
			for k := range seen {
				delete(seen, k)
			}
			res.Extra["unreduced_fallback_delay_bound"] = 2
			res.Stats = vs.ExploreNaive(setup, body, visit, false, 2, deadline)
			res.Stats.Closed = false
		}
	}
	res.NOutcomes = len(outcomes)
	for _, ms := range sites {
		res.MapSites = append(res.MapSites, ms)
	}
	sort.Slice(res.MapSites, func(i, j int) bool { return res.MapSites[i].ID < res.MapSites[j].ID })
}

// longLine: "k:len" makes line k of every file written by writeLines len bytes long (longer than
// the 4096-byte buffer of a bufio.Reader, shorter than the 64 kB token limit of a bufio.Scanner)
var longLine = ""

func writeLines(path string, n int, finalNewline bool) string {
	lines := []string{}
	for i := 0; i < n; i++ {
		lines = append(lines, fmt.Sprintf("line%d", i))
	}
	if f := strings.Split(longLine, ":"); len(f) == 2 {
		k, _ := strconv.Atoi(f[0])
		l, _ := strconv.Atoi(f[1])
		if k < n && l > 0 {
			lines[k] = strings.Repeat("x", l)
		}
	}
	c := strings.Join(lines, "\n")
	if n > 0 && finalNewline {
		c += "\n"
	}
	os.WriteFile(path, []byte(c), 0644)
	return c
}

func product(lists [][]string) [][]string {
	out := [][]string{{}}
	for _, l := range lists {
		n := [][]string{}
		for _, p := range out {
			for _, x := range l {
				n = append(n, append(append([]string{}, p...), x))
			}
		}
		out = n
	}
	return out
}

func compScenarios(a map[string]string) *compScenario {
	switch a["comp"] {
	case "filecombinator", "paramcombinator":
		lens := parseInts(a["lens"])
		names := []string{"a", "b", "c", "d"}[:len(lens)]
		isParam := a["comp"] == "paramcombinator"
		items := [][]string{}
		for i, n := range lens {
			l := []string{}
			for k := 0; k < n; k++ {
				if isParam {
					l = append(l, fmt.Sprintf("%s%d", names[i], k))
				} else {
					l = append(l, fmt.Sprintf("%s%d.txt", names[i], k))
				}
			}
			items = append(items, l)
		}
		return &compScenario{
			desc: fmt.Sprintf("%s/lens=%v/buf=%s", a["comp"], lens, a["buf"]) + map[bool]string{true: "/one-consuming-process", false: ""}[a["zip"] == "1"],
			setup: func() {
				if !isParam {
					for _, l := range items {
						for _, f := range l {
							os.WriteFile(f, []byte(f), 0644)
						}
					}
				}
			},
			build: func(wf *sp.Workflow) {
				if isParam && a["zip"] == "1" {
					// the documented use: ONE process takes a value from every out-port per task (lock-step)
					c := components.NewParamCombinator(wf, "comb")
					pat := "echo"
					for _, n := range names {
						pat += " {p:" + n + "}"
					}
					use := wf.NewProc("use", pat)
					use.CustomExecute = func(t *sp.Task) {
						vals := []string{}
						for _, n := range names {
							vals = append(vals, t.Param(n))
						}
						vs.Note("recv:use:" + strings.Join(vals, "+"))
					}
					for i, n := range names {
						s := components.NewParamSource(wf, "src_"+n, items[i]...)
						c.InParam(n).From(s.Out())
						use.InParam(n).From(c.OutParam(n))
					}
				} else if isParam {
					c := components.NewParamCombinator(wf, "comb")
					for i, n := range names {
						s := components.NewParamSource(wf, "src_"+n, items[i]...)
						c.InParam(n).From(s.Out())
						r := newPRecorder(wf, "rec_"+n)
						r.InParamPort("in").From(c.OutParam(n))
					}
				} else if a["zip"] == "1" {
					// ONE process takes a file from every out-port per task (lock-step)
					c := components.NewFileCombinator(wf, "comb")
					pat := "echo"
					for _, n := range names {
						pat += " {i:" + n + "}"
					}
					use := wf.NewProc("use", pat)
					use.CustomExecute = func(t *sp.Task) {
						vals := []string{}
						for _, n := range names {
							vals = append(vals, t.InPath(n))
						}
						vs.Note("recv:use:" + strings.Join(vals, "+"))
					}
					for i, n := range names {
						s := components.NewFileSource(wf, "src_"+n, items[i]...)
						c.In(n).From(s.Out())
						use.In(n).From(c.Out(n))
					}
				} else {
					c := components.NewFileCombinator(wf, "comb")
					for i, n := range names {
						s := components.NewFileSource(wf, "src_"+n, items[i]...)
						c.In(n).From(s.Out())
						r := newRecorder(wf, "rec_"+n)
						r.InPort("in").From(c.Out(n))
					}
				}
			},
			oracle: func(o *Obs, add func(class, detail string)) {
				rc := received(o.Notes)
				want := product(items)
				if a["zip"] == "1" {
					got := append([]string{}, rc["use"]...)
					ws := []string{}
					for _, t := range want {
						ws = append(ws, strings.Join(t, "+"))
					}
					sort.Strings(got)
					sort.Strings(ws)
					if strings.Join(got, " ") != strings.Join(ws, " ") {
						add("combinator-product", fmt.Sprintf("tasks of the consuming process: [%s]; Cartesian product: [%s]", strings.Join(got, " "), strings.Join(ws, " ")))
					}
					return
				}
				n := -1
				for _, nm := range names {
					l := len(rc["rec_"+nm])
					if n >= 0 && l != n {
						add("combinator-unaligned", fmt.Sprintf("out-ports emit different numbers of items: %v", lensOf(rc, names)))
						return
					}
					n = l
				}
				got := []string{}
				for i := 0; i < n; i++ {
					t := []string{}
					for _, nm := range names {
						t = append(t, rc["rec_"+nm][i])
					}
					got = append(got, strings.Join(t, "+"))
				}
				ws := []string{}
				for _, t := range want {
					ws = append(ws, strings.Join(t, "+"))
				}
				sort.Strings(got)
				sort.Strings(ws)
				if strings.Join(got, " ") != strings.Join(ws, " ") {
					add("combinator-product", fmt.Sprintf("aligned tuples emitted: [%s]; Cartesian product: [%s]", strings.Join(got, " "), strings.Join(ws, " ")))
				}
			},
		}
	case "selector":
		ports, _ := strconv.Atoi(a["ports"])
		L, _ := strconv.Atoi(a["len"])
		mask, _ := strconv.Atoi(a["mask"]) // bit (p*L+i) set: item i of port p satisfies the predicate
		names := []string{"a", "b", "c"}[:ports]
		items := [][]string{}
		for p := 0; p < ports; p++ {
			l := []string{}
			for i := 0; i < L; i++ {
				l = append(l, fmt.Sprintf("%s%d.txt", names[p], i))
			}
			items = append(items, l)
		}
		ok := map[string]bool{}
		for p := 0; p < ports; p++ {
			for i := 0; i < L; i++ {
				ok[items[p][i]] = mask&(1<<uint(p*L+i)) != 0
			}
		}
		return &compScenario{
			desc: fmt.Sprintf("selector/ports=%d/len=%d/mask=%b", ports, L, mask),
			setup: func() {
				for _, l := range items {
					for _, f := range l {
						os.WriteFile(f, []byte(f), 0644)
					}
				}
			},
			build: func(wf *sp.Workflow) {
				sel := components.NewIPSelectorSync(wf, "sel", func(ip *sp.FileIP) bool { return ok[ip.Path()] })
				for p, n := range names {
					s := components.NewFileSource(wf, "src_"+n, items[p]...)
					sel.In(n).From(s.Out())
					r := newRecorder(wf, "rec_"+n)
					r.InPort("in").From(sel.Out(n))
				}
			},
			oracle: func(o *Obs, add func(class, detail string)) {
				rc := received(o.Notes)
				for p, n := range names {
					want := []string{}
					for i := 0; i < L; i++ {
						all := true
						for q := 0; q < ports; q++ {
							if !ok[items[q][i]] {
								all = false
							}
						}
						if all {
							want = append(want, items[p][i])
						}
					}
					if strings.Join(rc["rec_"+n], ",") != strings.Join(want, ",") {
						add("selector", fmt.Sprintf("port %s forwarded [%s]; tuples whose members all satisfy the predicate: [%s]", n, strings.Join(rc["rec_"+n], ","), strings.Join(want, ",")))
					}
				}
			},
		}
	case "splitter":
		n, _ := strconv.Atoi(a["lines"])
		per, _ := strconv.Atoi(a["per"])
		nl := a["newline"] == "1"
		content := ""
		longLine = a["longline"]
		ll := ""
		if longLine != "" {
			ll = "/long-line=" + longLine
		}
		return &compScenario{
			desc:  fmt.Sprintf("splitter/lines=%d/per=%d/final-newline=%v%s", n, per, nl, ll),
			setup: func() { content = writeLines("in.txt", n, nl) },
			build: func(wf *sp.Workflow) {
				s := components.NewFileSource(wf, "src", "in.txt")
				sp2 := components.NewFileSplitter(wf, "split", per)
				sp2.InFile().From(s.Out())
				r := newRecorder(wf, "rec")
				r.reads = true
				r.InPort("in").From(sp2.OutSplitFile())
			},
			oracle: func(o *Obs, add func(class, detail string)) {
				for _, nt := range o.Notes {
					if strings.HasPrefix(nt, "unreadable:") {
						add("splitter-part-not-final", "a part was handed on before it could be read at its path: "+strings.TrimPrefix(nt, "unreadable:rec:"))
					}
				}
				rc := received(o.Notes)
				cat := ""
				for _, p := range rc["rec"] {
					c, ok := o.Tree[p]
					if !ok {
						add("splitter-missing-part", "part "+p+" was sent but does not exist")
						return
					}
					if strings.Count(c, "\n") > per || (strings.Count(c, "\n") == per && !strings.HasSuffix(c, "\n")) {
						add("splitter-part-too-long", fmt.Sprintf("part %s has more than %d lines: %.200q", p, per, c))
					}
					cat += c
				}
				if cat != content {
					if !nl && cat == content+"\n" {
						add("splitter-adds-newline", fmt.Sprintf("the parts concatenate to the input plus a final newline (input without final newline, %d lines)", n))
					} else {
						add("splitter-concat", fmt.Sprintf("parts concatenate to %d bytes / %d lines %.120q, input is %d bytes / %d lines %.120q", len(cat), strings.Count(cat, "\n"), cat, len(content), strings.Count(content, "\n"), content))
					}
				}
			},
		}
	case "splitter2":
		// one FileSplitter instance fed with SEVERAL files (lengths n1,n2[,n3]): every file is split on its own
		per, _ := strconv.Atoi(a["per"])
		lens := []int{}
		for _, x := range strings.Split(a["lens"], ",") {
			v, _ := strconv.Atoi(x)
			lens = append(lens, v)
		}
		contents := map[string]string{}
		names := []string{}
		for i := range lens {
			names = append(names, fmt.Sprintf("f%d.txt", i))
		}
		return &compScenario{
			desc: fmt.Sprintf("splitter/files=%v/per=%d", lens, per),
			setup: func() {
				for i, n := range lens {
					contents[names[i]] = writeLines(names[i], n, true)
				}
			},
			build: func(wf *sp.Workflow) {
				s := components.NewFileSource(wf, "src", names...)
				sp2 := components.NewFileSplitter(wf, "split", per)
				sp2.InFile().From(s.Out())
				r := newRecorder(wf, "rec")
				r.InPort("in").From(sp2.OutSplitFile())
			},
			oracle: func(o *Obs, add func(class, detail string)) {
				cat := map[string]string{}
				for _, p := range received(o.Notes)["rec"] {
					c, ok := o.Tree[p]
					if !ok {
						add("splitter-missing-part", "part "+p+" was sent but does not exist")
						return
					}
					if strings.Count(c, "\n") > per {
						add("splitter-part-too-long", fmt.Sprintf("part %s has more than %d lines: %.200q", p, per, c))
					}
					i := strings.Index(p, ".split_")
					if i < 0 {
						add("splitter-part-name", "unexpected part name "+p)
						continue
					}
					cat[p[:i]] += c
				}
				for _, f := range names {
					if cat[f] != contents[f] {
						add("splitter-concat", fmt.Sprintf("the parts of %s concatenate to %q, the file is %q", f, cat[f], contents[f]))
					}
				}
			},
		}
	case "concatenator":
		k, _ := strconv.Atoi(a["k"])
		two := a["two"] == "1"
		files := srcItems("in", k)
		files2 := []string{}
		if two {
			files2 = srcItems("jn", 1)
		}
		return &compScenario{
			desc: fmt.Sprintf("concatenator/inputs=%d/second-upstream=%v", k, two) + map[bool]string{true: "/longer-output-of-an-earlier-run-present", false: ""}[a["stale"] == "1"],
			setup: func() {
				for _, f := range append(append([]string{}, files...), files2...) {
					os.WriteFile(f, []byte("content of "+f), 0644)
				}
				if a["stale"] == "1" {
					// the output of an earlier run over MORE inputs is still there
					os.MkdirAll("out", 0777)
					os.WriteFile("out/all.txt", []byte(strings.Repeat("content of an input of the earlier run\n", 6)), 0644)
				}
			},
			build: func(wf *sp.Workflow) {
				s := components.NewFileSource(wf, "src", files...)
				c := components.NewConcatenator(wf, "cat", "out/all.txt")
				c.In().From(s.Out())
				if two {
					s2 := components.NewFileSource(wf, "src2", files2...)
					c.In().From(s2.Out())
				}
				r := newRecorder(wf, "rec")
				r.InPort("in").From(c.Out())
			},
			oracle: func(o *Obs, add func(class, detail string)) {
				got := o.Tree["out/all.txt"]
				parts := strings.Split(got, "\n")
				if len(parts) > 0 && parts[len(parts)-1] == "" {
					parts = parts[:len(parts)-1]
				}
				want := []string{}
				for _, f := range append(append([]string{}, files...), files2...) {
					want = append(want, "content of "+f)
				}
				a1, b1 := append([]string{}, parts...), append([]string{}, want...)
				sort.Strings(a1)
				sort.Strings(b1)
				if strings.Join(a1, "|") != strings.Join(b1, "|") {
					add("concatenator-content", fmt.Sprintf("output holds %q; every input exactly once would be %q", parts, want))
					return
				}
				// arrival order: each upstream's items keep their order
				idx := 0
				for _, p := range parts {
					if idx < len(files) && p == "content of "+files[idx] {
						idx++
					}
				}
				if idx != len(files) {
					add("concatenator-order", fmt.Sprintf("output order %q does not keep the upstream's order", parts))
				}
				rc := received(o.Notes)
				if strings.Join(rc["rec"], ",") != "out/all.txt" {
					add("concatenator-out", fmt.Sprintf("out-port emitted %v", rc["rec"]))
				}
			},
		}
	case "joinorder":
		// two sub-stream carriers arrive at a joined in-port; the sub-stream of the SECOND one may be
		// closed first: the joined outputs still leave in the order the carriers arrived (C08)
		return &compScenario{
			desc: "joined-in-port/two-sub-streams/second-may-close-first",
			maxT: 2,
			setup: func() {
				os.WriteFile("m1.txt", []byte("member of set1\n"), 0644)
				os.WriteFile("m2.txt", []byte("member of set2\n"), 0644)
			},
			build: func(wf *sp.Workflow) {
				f := newTwoSubFeeder(wf, "feed")
				j := wf.NewProc("j", "cat {i:in|join: } > {o:out}")
				j.SetOut("out", "{i:in}.joined.txt")
				j.In("in").From(f.OutPort("out"))
				r := newRecorder(wf, "rec")
				r.InPort("in").From(j.Out("out"))
			},
			oracle: func(o *Obs, add func(class, detail string)) {
				got := received(o.Notes)["rec"]
				want := []string{"set1.joined.txt", "set2.joined.txt"}
				if strings.Join(got, ",") != strings.Join(want, ",") {
					add("order", fmt.Sprintf("the joined outputs left the out-port as %v, their input sets arrived as %v", got, want))
				}
				for i, p := range want {
					if c := o.Tree[p]; c != fmt.Sprintf("member of set%d\n", i+1) {
						add("join-content", fmt.Sprintf("%s holds %q", p, c))
					}
				}
			},
		}
	case "concatgroups":
		// Concatenator with GroupByTag over a stream that mixes untagged inputs and inputs tagged g=x / g=y
		tags := strings.Split(a["tags"], ",")
		if a["tags"] == "" {
			tags = nil
		}
		files := srcItems("in", len(tags))
		return &compScenario{
			desc: fmt.Sprintf("concatenator/group-by-tag/tags=%s", a["tags"]),
			setup: func() {
				for _, f := range files {
					os.WriteFile(f, []byte("content of "+f), 0644)
				}
			},
			build: func(wf *sp.Workflow) {
				s := newTaggedSource(wf, "tsrc", files, tags)
				c := components.NewConcatenator(wf, "cat", "out/all.txt")
				c.GroupByTag = "g"
				c.In().From(s.OutPort("out"))
				r := newRecorder(wf, "rec")
				r.InPort("in").From(c.Out())
			},
			oracle: func(o *Obs, add func(class, detail string)) {
				want := map[string]string{"out/all.txt": ""}
				for i, f := range files {
					path := "out/all.txt"
					if tags[i] != "-" {
						path = "out/all.txt.g_" + tags[i]
					}
					want[path] += "content of " + f + "\n"
				}
				paths := []string{}
				for p, w := range want {
					paths = append(paths, p)
					if got, ok := o.Tree[p]; !ok {
						add("concatenator-content", fmt.Sprintf("output %s is missing", p))
					} else if got != w {
						add("concatenator-content", fmt.Sprintf("%s holds %q; every input of its group exactly once in arrival order would be %q", p, got, w))
					}
				}
				for p := range o.Tree {
					if strings.HasPrefix(p, "out/all.txt") && !strings.HasSuffix(p, ".audit.json") && o.Tree[p] != "<dir>" {
						if _, ok := want[p]; !ok {
							add("concatenator-content", "unexpected output file "+p)
						}
					}
				}
				rc := append([]string{}, received(o.Notes)["rec"]...)
				sort.Strings(rc)
				sort.Strings(paths)
				if strings.Join(rc, ",") != strings.Join(paths, ",") {
					add("concatenator-out", fmt.Sprintf("out-port emitted %v, expected %v", rc, paths))
				}
			},
		}
	case "sources":
		k, _ := strconv.Atoi(a["k"])
		files := srcItems("f", k)
		params := []string{}
		for i := 0; i < k; i++ {
			params = append(params, fmt.Sprintf("p%d", i))
		}
		nlFinal := a["newline"] != "0" // "0": the last line of params.txt has no final newline
		blank := a["blank"] == "1"     // blank lines after every line and two more at the end (empty items are items)
		lines := []string{}
		for i := 0; i < k; i++ {
			lines = append(lines, fmt.Sprintf("line%d", i))
			if blank {
				lines = append(lines, "")
			}
		}
		if blank {
			lines = append(lines, "", "")
		}
		desc := fmt.Sprintf("sources/items=%d/final-newline=%v", k, nlFinal)
		if blank {
			desc += "/blank-lines"
		}
		return &compScenario{
			desc: desc,
			setup: func() {
				for _, f := range files {
					os.WriteFile(f, []byte(f), 0644)
				}
				if blank {
					os.WriteFile("params.txt", []byte(strings.Join(lines, "\n")+"\n"), 0644)
				} else {
					writeLines("params.txt", k, nlFinal)
				}
			},
			build: func(wf *sp.Workflow) {
				fs := components.NewFileSource(wf, "fsrc", files...)
				newRecorder(wf, "rec_f").InPort("in").From(fs.Out())
				ps := components.NewParamSource(wf, "psrc", params...)
				newPRecorder(wf, "rec_p").InParamPort("in").From(ps.Out())
				fr := components.NewFileToParamsReader(wf, "freader", "params.txt")
				newPRecorder(wf, "rec_l").InParamPort("in").From(fr.OutLine())
				ct := components.NewCommandToParams(wf, "cmd2p", "cat params.txt")
				newPRecorder(wf, "rec_c").InParamPort("in").From(ct.OutParam())
			},
			oracle: func(o *Obs, add func(class, detail string)) {
				rc := received(o.Notes)
				for name, want := range map[string][]string{"rec_f": files, "rec_p": params, "rec_l": lines, "rec_c": lines} {
					// %q: an empty item is an item (a joined string would hide it)
					if fmt.Sprintf("%q", rc[name]) != fmt.Sprintf("%q", want) && !(len(rc[name]) == 0 && len(want) == 0) {
						add("source-items", fmt.Sprintf("%s received %q, expected exactly %q in order", name, rc[name], want))
					}
				}
			},
		}
	case "globberdep":
		// a DEPENDENT globber: it globs after ALL items of its dependency port have arrived (k upstream tasks)
		k, _ := strconv.Atoi(a["k"])
		files := srcItems("s", k)
		return &compScenario{
			desc: fmt.Sprintf("globber-dependent/upstream-tasks=%d", k),
			maxT: 2,
			setup: func() {
				for _, f := range files {
					os.WriteFile(f, []byte(f), 0644)
				}
			},
			build: func(wf *sp.Workflow) {
				s := components.NewFileSource(wf, "src", files...)
				mk := wf.NewProc("mk", "cat {i:in} > {o:out}")
				mk.SetOut("out", "gen_{i:in|basename}")
				mk.In("in").From(s.Out())
				g := components.NewFileGlobberDependent(wf, "glob", "gen_*.txt")
				g.InDependency().From(mk.Out("out"))
				newRecorder(wf, "rec").InPort("in").From(g.Out())
			},
			oracle: func(o *Obs, add func(class, detail string)) {
				want := []string{}
				for _, f := range files {
					want = append(want, "gen_"+f)
				}
				sort.Strings(want)
				got := received(o.Notes)["rec"]
				if strings.Join(got, ",") != strings.Join(want, ",") {
					add("globber", fmt.Sprintf("dependent globber emitted [%s]; files matching gen_*.txt once all upstream tasks are done: [%s]", strings.Join(got, ","), strings.Join(want, ",")))
				}
			},
		}
	case "globber":
		pat := a["pattern"]
		tree := strings.Split(a["tree"], ",")
		return &compScenario{
			desc: fmt.Sprintf("globber/pattern=%s/tree=%s", pat, a["tree"]),
			setup: func() {
				for _, f := range tree {
					os.MkdirAll(filepath.Dir(f), 0777)
					os.WriteFile(f, []byte(f), 0644)
				}
			},
			build: func(wf *sp.Workflow) {
				// several patterns are given as "p1;p2;p3": the matches of each, in the order of the patterns
				g := components.NewFileGlobber(wf, "glob", strings.Split(pat, ";")...)
				newRecorder(wf, "rec").InPort("in").From(g.Out())
			},
			oracle: func(o *Obs, add func(class, detail string)) {
				rc := received(o.Notes)
				want := []string{}
				// entries = the files and every directory above them (a directory matches a pattern too)
				set := map[string]bool{}
				for _, f := range tree {
					set[f] = true
					for d := filepath.Dir(f); d != "."; d = filepath.Dir(d) {
						set[d] = true
					}
				}
				all := []string{}
				for f := range set {
					all = append(all, f)
				}
				sort.Strings(all)
				for _, onePat := range strings.Split(pat, ";") {
					for _, f := range all {
						// independent reference: match the pattern segment by segment
						if globMatch(onePat, f) {
							want = append(want, f)
						}
					}
				}
				if strings.Join(rc["rec"], ",") != strings.Join(want, ",") {
					add("globber", fmt.Sprintf("emitted [%s]; files matching %s: [%s]", strings.Join(rc["rec"], ","), pat, strings.Join(want, ",")))
				}
			},
		}
	}
	return nil
}

func globMatch(pat, f string) bool {
	ps, fs := strings.Split(pat, "/"), strings.Split(f, "/")
	if len(ps) != len(fs) {
		return false
	}
	for i := range ps {
		if ok, _ := filepath.Match(ps[i], fs[i]); !ok {
			return false
		}
	}
	return true
}

func lensOf(rc map[string][]string, names []string) []int {
	r := []int{}
	for _, n := range names {
		r = append(r, len(rc["rec_"+n]))
	}
	return r
}

// taggedSource sends file IPs some of which carry the tag g (tags[i] == "-": untagged).
type taggedSource struct {
	sp.BaseProcess
	files, tags []string
}

func newTaggedSource(wf *sp.Workflow, name string, files, tags []string) *taggedSource {
	p := &taggedSource{BaseProcess: sp.NewBaseProcess(wf, name), files: files, tags: tags}
	p.InitOutPort(p, "out")
	wf.AddProc(p)
	return p
}

func (p *taggedSource) Run() {
	defer p.CloseAllOutPorts()
	for i, f := range p.files {
		ip, err := sp.NewFileIP(f)
		if err != nil {
			p.Fail(err)
		}
		if p.tags[i] != "-" {
			ip.AddTag("g", p.tags[i])
		}
		p.OutPort("out").Send(ip)
	}
}

// twoSubFeeder sends two sub-stream carriers (set1, set2) and then feeds and closes their
// sub-streams from two goroutines of its own (either may finish first).
type twoSubFeeder struct {
	sp.BaseProcess
}

func newTwoSubFeeder(wf *sp.Workflow, name string) *twoSubFeeder {
	p := &twoSubFeeder{BaseProcess: sp.NewBaseProcess(wf, name)}
	p.InitOutPort(p, "out")
	wf.AddProc(p)
	return p
}

func (p *twoSubFeeder) Run() {
	defer p.CloseAllOutPorts()
	carriers := []*sp.FileIP{}
	for _, n := range []string{"set1", "set2"} {
		c, err := sp.NewFileIP(n)
		if err != nil {
			p.Fail(err)
		}
		carriers = append(carriers, c)
	}
	done := make(chan int, 2)
	for i, c := range carriers {
		i, c := i, c
		go func() {
			m, err := sp.NewFileIP(fmt.Sprintf("m%d.txt", i+1))
			if err != nil {
				p.Fail(err)
			}
			c.SubStream.Send(m)
			close(c.SubStream.Chan)
			done <- 1
		}()
	}
	for _, c := range carriers {
		p.OutPort("out").Send(c)
	}
	<-done
	<-done
}
