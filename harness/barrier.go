//go:build verif

package main

import "vs"

// barrier: k tasks rendezvous inside their bodies; if the library serialises them the
// barrier never opens and the explorer reports a deadlock (C07 work conservation).
type barrier struct {
	n    int
	want int
	ch   *vs.Chan[int]
}

func (e *Env) barrierWait(name string, want int) {
	b := e.Barriers[name]
	if b == nil {
		b = &barrier{want: want, ch: vs.NewChan[int](0)}
		e.Barriers[name] = b
	}
	b.n++
	if b.n == b.want {
		b.ch.Close()
		return
	}
	b.ch.Recv2()
}

