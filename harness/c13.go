//go:build verif

package main

import (
	"crypto/md5"
	"fmt"
	"os"
	"path/filepath"
	"sort"
	"strconv"
	"strings"

	sp "github.com/scipipe/scipipe"
	"github.com/scipipe/scipipe/components"
	"vs"
)

// C13: a file written at an output placeholder ends up exactly at the declared path.
//
// Exhaustive enumeration of a finite path grammar. Every case is a one-task workflow
// (FileSource -> one shell process -> implicit sink) that is run for real: the instrumented
// scipipe code formats the command, creates the temp directory, REAL bash executes the command
// in it, and scipipe finalizes the paths. Afterwards the whole scratch tree of the case is read
// back and compared with the reference model below.
//
// Reference model (from docs/writing_workflows.md: "{i:INPORT-NAME}" / "{o:OUTPORT-NAME}"
// placeholders "will be replaced with actual filenames when the command is executed", SetOut
// configures the path of the file on the out-port; README: an <output>.audit.json accompanies
// every output). The model knows NOTHING about temp directories or the internal encoding:
//
//	final disk = initial disk
//	           + declared output path        : the bytes the command wrote at {o:out}
//	           + <declared output>.audit.json: allowed (contents not judged here)
//	           + <declared output>.sib       : the bytes the command wrote at {o:out}.sib
//	           + <cwd>/<rel>                 : for every extra file the command wrote at the
//	                                           relative name <rel> in its working directory
//	and the bytes the command reads through {i:in} are the bytes of the input file.
//
// Deliberately silent (never judged): directories (empty directories that appear anywhere),
// the audit file's contents, what the formatted command text looks like, timing.

func init() { specialJobs["c13"] = runC13 }

// ---------------------------------------------------------------- the grammar

var c13Seg = []string{"a", "b.c", ".h", "x..y", "d-e_f", "__parent__", "x__parent__y", "__fsroot__", "9", "e.."}
var c13SegSmall = []string{"a", "__parent__", "__fsroot__", "e.."}
var c13SegMid = []string{"a", "b.c", ".h", "__parent__", "x__parent__y", "__fsroot__", "e.."}
var c13Prefix = []string{"", "./", "../", "../../", "/ABS/"}
var c13Form = map[string]string{"": "plain", "./": "dot", "../": "parent1", "../../": "parent2", "/ABS/": "abs"}

// fixed partners (names outside the segment alphabet, so they never collide with grammar paths)
var c13FixedIn = []string{"in.txt", "id/in.txt", "./id/in.txt", "../id/in.txt", "../../id/in.txt", "/ABS/id/in.txt", "id/x__parent__y/in.txt"}
var c13FixedOut = []string{"out.txt", "od/out.txt", "./od/sub/out.txt", "../od/out.txt", "../../od/out.txt", "/ABS/od/out.txt", "od/b.c/out.txt"}

// c13Sib: the extra file "substituted output placeholder + suffix" (a tool writing an index
// next to its output); expected next to the declared output.
const c13Sib = "{o:out}.sib"

// sets of extra files, <= 2 per set: relative names in the task's working directory, or the
// sibling of the output. 11 sets: co-prime with the 7 fixed partners and the 10 file names.
var c13Extras = [][]string{
	{},
	{"e.txt"},
	{"sub/e.txt", ".hid/x..y.txt"},
	{"my__parent__file.txt"},
	{"s/x__parent__y.txt", "t../e.txt"},
	{"s__fsroot__/e.txt"},
	{"s/__fsroot__/e.txt", "e.txt.."},
	{"a__parent__b__parent__c.txt"},
	{"sub/deep/e.txt", "e.txt"},
	{c13Sib},
	{c13Sib, "zz.txt"},
}

type c13Path struct {
	s      string // the path as given to scipipe, "/ABS/" still symbolic
	prefix string
	segs   []string // directory segments + file name
}

// c13Paths: PREFIX x SEG^k (k <= depth directory segments) x SEG (file name), in a fixed order
func c13Paths(segs []string, depth int) []c13Path {
	out := []c13Path{}
	for _, pre := range c13Prefix {
		dirs := [][]string{{}}
		level := [][]string{{}}
		for k := 1; k <= depth; k++ {
			next := [][]string{}
			for _, d := range level {
				for _, s := range segs {
					nd := append(append([]string{}, d...), s)
					next = append(next, nd)
				}
			}
			dirs = append(dirs, next...)
			level = next
		}
		for _, d := range dirs {
			for _, f := range segs {
				all := append(append([]string{}, d...), f)
				out = append(out, c13Path{s: pre + strings.Join(all, "/"), prefix: pre, segs: all})
			}
		}
	}
	return out
}

func c13Parse(p string) c13Path {
	for _, pre := range []string{"/ABS/", "../../", "../", "./"} {
		if strings.HasPrefix(p, pre) {
			return c13Path{s: p, prefix: pre, segs: strings.Split(p[len(pre):], "/")}
		}
	}
	return c13Path{s: p, prefix: "", segs: strings.Split(p, "/")}
}

// class of a path in terms of the grammar: form + the features an encoding of paths could
// possibly care about (used in signatures, so that a violation names the failing input class)
func (p c13Path) class() string {
	set := map[string]bool{}
	for i, s := range p.segs {
		dir := i < len(p.segs)-1
		if strings.Contains(s, "__parent__") {
			set["ph-parent"] = true
		}
		if s == "__fsroot__" {
			if dir {
				set["ph-fsroot-dir"] = true
			} else {
				set["ph-fsroot-file"] = true
			}
		}
		if dir && strings.HasSuffix(s, "..") {
			set["dotdot-dir"] = true
		}
	}
	fl := []string{}
	for _, f := range []string{"dotdot-dir", "ph-fsroot-dir", "ph-fsroot-file", "ph-parent"} {
		if set[f] {
			fl = append(fl, f)
		}
	}
	if len(fl) == 0 {
		return c13Form[p.prefix] + ":-"
	}
	return c13Form[p.prefix] + ":" + strings.Join(fl, ",")
}

func (p c13Path) trivial() bool {
	// one plain name without placeholder look-alikes, leading dot or ".."
	return p.prefix == "" && len(p.segs) == 1 && p.class() == "plain:-" && !strings.HasPrefix(p.segs[0], ".") && !strings.Contains(p.segs[0], "..")
}

type c13Case struct {
	out, in c13Path
	out2    c13Path // second declared output of the same task (sweep E)
	has2    bool
	extras  []string
	sweep   string
}

func (c *c13Case) key() string {
	k := c.out.s + " <- " + c.in.s + " + [" + strings.Join(c.extras, " ") + "]"
	if c.has2 {
		k += " & " + c.out2.s
	}
	return k
}

// c13EffectiveExtras: the sibling is not written when the library would try to move it to the
// root of the REAL file system (relative output path whose first directory is "__fsroot__").
func c13EffectiveExtras(out c13Path, extras []string) []string {
	if !((out.prefix == "" || out.prefix == "./") && len(out.segs) > 1 && out.segs[0] == "__fsroot__") {
		return extras
	}
	r := []string{}
	for _, x := range extras {
		if x != c13Sib {
			r = append(r, x)
		}
	}
	return r
}

// c13Enumerate builds the complete, duplicate-free list of cases of a tier in a fixed order and
// returns those with index % nshards == shard (every worker enumerates the same list; only
// 16-byte digests of the other shards' cases are kept).
func c13Enumerate(aDepth, bDepth int, cAlpha string, dDepth int, shard, nshards int) ([]*c13Case, map[string]int) {
	sizes := map[string]int{}
	seen := map[[16]byte]bool{}
	cases := []*c13Case{}
	idx := 0
	add := func(c *c13Case) {
		c.extras = c13EffectiveExtras(c.out, c.extras)
		k := md5.Sum([]byte(c.key()))
		if seen[k] {
			sizes["dup_"+c.sweep]++
			return
		}
		seen[k] = true
		if idx%nshards == shard {
			cases = append(cases, c)
		}
		idx++
		sizes["cases_"+c.sweep]++
	}
	nx, ni, no := len(c13Extras), len(c13FixedIn), len(c13FixedOut)
	// A: every output path; input and extras rotate through the fixed lists
	for i, p := range c13Paths(c13Seg, aDepth) {
		add(&c13Case{out: p, in: c13Parse(c13FixedIn[i%ni]), extras: c13Extras[i%nx], sweep: "A"})
	}
	// B: every input path
	for i, p := range c13Paths(c13Seg, bDepth) {
		add(&c13Case{out: c13Parse(c13FixedOut[i%no]), in: p, extras: c13Extras[i%nx], sweep: "B"})
	}
	// C: output x input, both from the grammar (depth 1)
	alpha := c13SegSmall
	if cAlpha == "full" {
		alpha = c13Seg
	} else if cAlpha == "mid" {
		alpha = c13SegMid
	}
	ps := c13Paths(alpha, 1)
	i := 0
	for _, o := range ps {
		for _, in := range ps {
			i++
			if c13Conflict(o, in) {
				sizes["conflict_C"]++
				continue
			}
			add(&c13Case{out: o, in: in, extras: c13Extras[i%nx], sweep: "C"})
		}
	}
	// D: output path x every set of extras
	dPaths := []c13Path{}
	if dDepth >= 0 {
		dPaths = c13Paths(c13Seg, dDepth)
	}
	for i, p := range dPaths {
		for _, x := range c13Extras {
			add(&c13Case{out: p, in: c13Parse(c13FixedIn[i%ni]), extras: x, sweep: "D"})
		}
	}
	// E: a task with TWO declared outputs, in every pair of (non-conflicting) places
	for _, o := range ps {
		for _, o2 := range ps {
			if o.s == o2.s || c13Conflict(o, o2) {
				continue
			}
			// names that look like the library's internal placeholders are the business of the
			// single-output sweeps (known findings there); here: ordinary names in two places
			if !strings.HasSuffix(o.class(), ":-") || !strings.HasSuffix(o2.class(), ":-") {
				continue
			}
			in := c13Parse(c13FixedIn[0])
			if c13Conflict(o, in) || c13Conflict(o2, in) {
				continue
			}
			add(&c13Case{out: o, out2: o2, has2: true, in: in, extras: nil, sweep: "E"})
		}
	}
	sizes["cases_total"] = idx
	return cases, sizes
}

// symbolic location (independent of the scratch directory) to detect that two paths of one
// case would need the same file, or one a file where the other needs a directory
func (p c13Path) symLoc() string {
	switch p.prefix {
	case "/ABS/":
		return "ABS/" + strings.Join(p.segs, "/")
	case "../":
		return "U1/" + strings.Join(p.segs, "/")
	case "../../":
		return "U2/" + strings.Join(p.segs, "/")
	}
	return "CWD/" + strings.Join(p.segs, "/")
}

func c13Conflict(a, b c13Path) bool {
	x, y := a.symLoc(), b.symLoc()
	return x == y || strings.HasPrefix(x, y+"/") || strings.HasPrefix(y, x+"/")
}

// ---------------------------------------------------------------- one case

type c13Env struct {
	root string // scratch tree of the case
	cwd  string // the workflow's working directory, 7 levels below root
	abs  string // an existing absolute directory, 5 levels below root
}

func (e *c13Env) loc(p c13Path) string {
	rest := strings.Join(p.segs, "/")
	if p.prefix == "/ABS/" {
		return filepath.Clean(e.abs + "/" + rest)
	}
	return filepath.Clean(e.cwd + "/" + p.prefix + rest)
}

func (e *c13Env) real(p c13Path) string {
	if p.prefix == "/ABS/" {
		return e.abs + "/" + strings.Join(p.segs, "/")
	}
	return p.s
}

// c13ErrClass: the first sentence of what scipipe logged through its Error logger
func c13ErrClass(log string) string {
	s := strings.TrimSpace(log)
	if strings.HasPrefix(s, "ERROR") {
		f := strings.SplitN(s, " ", 2)
		s = strings.TrimSpace(f[len(f)-1])
		// date and time
		for k := 0; k < 2; k++ {
			if i := strings.Index(s, " "); i > 0 && (strings.Contains(s[:i], "/") || strings.Contains(s[:i], ":")) && s[0] >= '0' && s[0] <= '9' {
				s = strings.TrimSpace(s[i:])
			}
		}
	}
	for strings.HasPrefix(s, "[") {
		i := strings.Index(s, "]")
		if i < 0 {
			break
		}
		s = strings.TrimLeft(s[i+1:], ": ")
	}
	for _, cut := range []string{"\n", ":", "("} {
		if i := strings.Index(s, cut); i >= 0 {
			s = s[:i]
		}
	}
	s = strings.TrimSpace(s)
	if len(s) > 60 {
		s = s[:60]
	}
	if s == "" {
		s = "none"
	}
	return s
}

type c13Finding struct {
	class, sig, detail string
}

const (
	c13OutTok = "OUT-TOKEN-c13"
	c13InTok  = "IN-TOKEN-c13"
	c13Out2Tok = "OUT2-TOKEN-c13"
)

func c13ExtraTok(i int) string { return fmt.Sprintf("EXTRA-%d-TOKEN-c13", i) }

// the command pattern: write the output, prove (inside the task's working directory, at the
// time the command runs) that {i:in} resolves to the input's bytes, write the extras
func (c *c13Case) command() string {
	parts := []string{"echo " + c13OutTok + " > {o:out}", "{ test \"$(cat {i:in})\" = " + c13InTok + " || exit 41; }"}
	if c.has2 {
		parts = append(parts, "echo "+c13Out2Tok+" > {o:out2}")
	}
	for i, x := range c.extras {
		if x != c13Sib {
			if d := filepath.Dir(x); d != "." {
				parts = append(parts, "mkdir -p "+d)
			}
		}
		parts = append(parts, "echo "+c13ExtraTok(i)+" > "+x)
	}
	return strings.Join(parts, " && ")
}

func c13Scan(root string) (files map[string]string, dirs []string) {
	files = map[string]string{}
	filepath.Walk(root, func(p string, fi os.FileInfo, err error) error {
		if err != nil {
			return nil
		}
		if fi.IsDir() {
			dirs = append(dirs, p)
			return nil
		}
		d, _ := os.ReadFile(p)
		files[p] = strings.TrimSpace(string(d))
		return nil
	})
	return
}

// run executes one case and returns the findings (nil: the reference model and the disk
// agree), the command scipipe executed, and the number of unjudged stray directories.
func (c *c13Case) run(env *c13Env) (finds []c13Finding, cmdline string, strayDirs int) {
	os.Chdir("/")
	os.RemoveAll(env.root)
	if err := os.MkdirAll(env.cwd, 0777); err != nil {
		panic(err)
	}
	os.MkdirAll(env.abs, 0777)
	inLoc, outLoc := env.loc(c.in), env.loc(c.out)
	os.MkdirAll(filepath.Dir(inLoc), 0777)
	if err := os.WriteFile(inLoc, []byte(c13InTok+"\n"), 0644); err != nil {
		panic(err)
	}
	if c.out.prefix != "" && c.out.prefix != "./" {
		// destination directory pre-existing for ../ and absolute forms
		os.MkdirAll(filepath.Dir(outLoc), 0777)
	}
	out2Loc := ""
	if c.has2 {
		out2Loc = env.loc(c.out2)
		if c.out2.prefix != "" && c.out2.prefix != "./" {
			os.MkdirAll(filepath.Dir(out2Loc), 0777)
		}
	}
	_, preDirs := c13Scan(env.root)
	pre := map[string]bool{}
	for _, d := range preDirs {
		pre[d] = true
	}
	os.Chdir(env.cwd)
	vs.Cwd = env.cwd
	errLog.Reset()
	vs.ExecLog = func(name string, args []string) {
		if name == "bash" && len(args) == 2 {
			cmdline = args[1]
		}
	}
	pattern := c.command()
	s := vs.RunOnce(nil, func() {
		wf := sp.NewWorkflowCustomLogFile("c13", 4, "/dev/null")
		src := components.NewFileSource(wf, "src", env.real(c.in))
		p := wf.NewProc(c13ProcName, pattern)
		p.SetOut("out", env.real(c.out))
		if c.has2 {
			p.SetOut("out2", env.real(c.out2))
		}
		p.In("in").From(src.Out())
		wf.Run()
	}, nil)
	vs.ExecLog = nil
	os.Chdir("/")
	oc, ic := "out="+c.out.class(), "in="+c.in.class()
	if s.Outcome != "" {
		log := strings.TrimSpace(errLog.String())
		if strings.Contains(log, "exit status 41") {
			return []c13Finding{{"input-not-resolved", "c13|input-not-resolved|" + ic,
				fmt.Sprintf("inside the task's working directory {i:in} did not resolve to the input file's bytes; executed: %.300s", cmdline)}}, cmdline, 0
		}
		return []c13Finding{{"unexpected-exit", "c13|unexpected-exit|err=" + c13ErrClass(log) + "|" + oc + "|" + ic,
			fmt.Sprintf("workflow ended with %s: %.300s", s.Outcome, log)}}, cmdline, 0
	}
	files, dirs := c13Scan(env.root)
	rel := func(p string) string {
		r, err := filepath.Rel(env.cwd, p)
		if err != nil {
			return p
		}
		return r
	}
	type want struct{ kind, name, loc, tok string }
	wants := []want{
		{"input", "in", inLoc, c13InTok},
		{"out", "out", outLoc, c13OutTok},
	}
	if c.has2 {
		wants = append(wants, want{"out", "out2", out2Loc, c13Out2Tok})
	}
	hasSib := false
	for i, x := range c.extras {
		if x == c13Sib {
			hasSib = true
			wants = append(wants, want{"extra", x, outLoc + ".sib", c13ExtraTok(i)})
		} else {
			wants = append(wants, want{"extra", x, filepath.Join(env.cwd, x), c13ExtraTok(i)})
		}
	}
	// the extras' signatures name the whole set, and the output's class when the set holds the
	// sibling (the only extra whose name depends on the output path)
	setSig := "set=" + strings.Join(c.extras, "+") + "|out=-"
	if hasSib {
		setSig = "set=" + strings.Join(c.extras, "+") + "|" + oc
	}
	expected := map[string]bool{outLoc + ".audit.json": true}
	if c.has2 {
		expected[out2Loc+".audit.json"] = true
	}
	for _, w := range wants {
		expected[w.loc] = true
	}
	others := []string{}
	for p := range files {
		if !expected[p] {
			others = append(others, p)
		}
	}
	sort.Strings(others)
	explained := map[string]bool{}
	whereElse := func(tok string) []string {
		r := []string{}
		for _, p := range others {
			if files[p] == tok {
				r = append(r, rel(p))
				explained[p] = true
			}
		}
		return r
	}
	for _, w := range wants {
		got, ok := files[w.loc]
		if ok && got == w.tok {
			if w.kind == "out" {
				if dup := whereElse(w.tok); len(dup) > 0 {
					finds = append(finds, c13Finding{"out-duplicate", "c13|out-duplicate|" + oc, fmt.Sprintf("the output token is at the declared path AND at %v", dup)})
				}
			}
			continue
		}
		found := "nowhere"
		if ok {
			found = "wrong-content"
		}
		el := whereElse(w.tok)
		if !ok && len(el) > 0 {
			found = "elsewhere"
		}
		switch w.kind {
		case "input":
			finds = append(finds, c13Finding{"input-modified", "c13|input-modified|" + ic, fmt.Sprintf("the input file %s is %s after the run (content %q)", rel(w.loc), found, got)})
		case "out":
			finds = append(finds, c13Finding{"out-missing", "c13|out-missing|" + oc + "|found=" + found, fmt.Sprintf("the file written at {o:out} is not at the declared path %s: %s %v (content there: %q)", rel(w.loc), found, el, got)})
		case "extra":
			f := found
			if len(el) > 0 && w.name != c13Sib {
				f = strings.Join(el, ",") // extras have fixed names: the exact wrong location is part of the signature
			}
			finds = append(finds, c13Finding{"extra-misplaced", "c13|extra-misplaced|which=" + w.name + "|found=" + f + "|" + setSig,
				fmt.Sprintf("the extra file written at %s is not at %s: %s %v", w.name, rel(w.loc), found, el)})
		}
	}
	for _, p := range others {
		if !explained[p] {
			finds = append(finds, c13Finding{"stray-file", "c13|stray-file|" + oc + "|" + ic + "|name=" + filepath.Base(p), fmt.Sprintf("unexpected file %s (content %.40q)", rel(p), files[p])})
		}
	}
	for _, d := range dirs {
		if strings.HasPrefix(filepath.Base(d), "_scipipe_tmp") {
			finds = append(finds, c13Finding{"tempdir-left", "c13|tempdir-left|" + oc + "|" + ic, "temp directory left behind: " + rel(d)})
		} else if !pre[d] {
			// new directories: those on the way to an expected file are fine, others are counted (not judged)
			onTheWay := false
			for p := range expected {
				if strings.HasPrefix(p, d+"/") {
					if _, ok := files[p]; ok {
						onTheWay = true
					}
				}
			}
			if !onTheWay {
				strayDirs++
			}
		}
	}
	return finds, cmdline, strayDirs
}

// ---------------------------------------------------------------- the job

// c13ProcName: the name of the process under test (job arg procname; process names are free text:
// with '/', blanks, capitals - the temp directory is derived from it)
var c13ProcName = "p"

func runC13(job *Job, res *Result) {
	os.Setenv("SCIPIPE_BUFSIZE", "8")
	if pn := job.Args["procname"]; pn != "" {
		c13ProcName = pn
	}
	atoi := func(k string, def int) int {
		if v, err := strconv.Atoi(job.Args[k]); err == nil {
			return v
		}
		return def
	}
	aDepth, bDepth, dDepth := atoi("a_depth", 1), atoi("b_depth", 1), atoi("d_depth", -1)
	cAlpha := job.Args["c_alpha"]
	shard, nshards := atoi("shard", 0), atoi("nshards", 1)
	if job.Base == "" {
		job.Base = fmt.Sprintf("/dev/shm/vw-%d", os.Getpid())
	}
	cases, sizes := c13Enumerate(aDepth, bDepth, cAlpha, dDepth, shard, nshards)
	res.Scenario = fmt.Sprintf("c13/outdepth=%d/indepth=%d/cross=%s/extras-depth=%d/shard=%d-of-%d", aDepth, bDepth, cAlpha, dDepth, shard, nshards)
	if c13ProcName != "p" {
		res.Scenario += fmt.Sprintf("/procname=%q", c13ProcName)
	}
	env := &c13Env{root: filepath.Join(job.Base, "c")}
	env.cwd = filepath.Join(env.root, "u1/u2/u3/u4/u5/u6/cwd")
	env.abs = filepath.Join(env.root, "v1/v2/v3/v4/abs")
	vs.ExecMode = "real"
	vs.SimExec = nil
	vs.CrashMode, vs.DiskDependent, vs.RaceMode, vs.EventsDependent = false, false, false, false
	vs.ForceAll = -1

	type group struct {
		class, sig string
		n          int
		examples   []string
	}
	groups := map[string]*group{}
	n, nontrivial, strayDirs, failedCases := 0, 0, 0, 0
	classes := map[string]bool{}
	for _, c := range cases {
		if only := job.Args["only_out"]; only != "" && c.out.s != only {
			continue
		}
		finds, cmdline, sd := c.run(env)
		n++
		strayDirs += sd
		if !(c.out.trivial() && c.in.trivial() && len(c.extras) == 0) {
			nontrivial++
		}
		classes[c.out.class()+" <- "+c.in.class()] = true
		if len(res.Samples) < 4 && (n%97 == 1) {
			verdict := "ok"
			if len(finds) > 0 {
				verdict = finds[0].class
			}
			res.Samples = append(res.Samples, fmt.Sprintf("sweep %s: out=%q in=%q extras=%q executed=%q -> %s", c.sweep, c.out.s, c.in.s, c.extras, cmdline, verdict))
		}
		if len(finds) > 0 {
			failedCases++
		}
		for _, f := range finds {
			g := groups[f.sig]
			if g == nil {
				g = &group{class: f.class, sig: f.sig}
				groups[f.sig] = g
			}
			g.n++
			if len(g.examples) < 2 {
				g.examples = append(g.examples, fmt.Sprintf("[out=%q in=%q extras=%q] %.400s", c.out.s, c.in.s, c.extras, f.detail))
			}
		}
	}
	os.Chdir("/")
	os.RemoveAll(env.root)
	// one Violation per input class (signature), with the number of cases and examples
	sigs := make([]string, 0, len(groups))
	for s := range groups {
		sigs = append(sigs, s)
	}
	sort.Strings(sigs)
	for _, s := range sigs {
		g := groups[s]
		res.Violations = append(res.Violations, Violation{Prop: "C13", Class: g.class, Signature: g.sig, Job: job.ID,
			Detail: fmt.Sprintf("%d case(s) of this input class, e.g. %s", g.n, strings.Join(g.examples, " ;; "))})
	}
	res.Stats = vs.Stats{Mode: "enumeration", Execs: n, Nodes: nontrivial, Transitions: n, Closed: true}
	res.NOutcomes = nontrivial
	res.Extra["cases_run"] = n
	res.Extra["cases_nontrivial"] = nontrivial
		res.Extra["cases_with_findings"] = failedCases
	res.Extra["path_class_pairs"] = len(classes)
	res.Extra["stray_directories_not_judged"] = strayDirs
	for k, v := range sizes {
		res.Extra["space_"+k] = v
	}
}
