//go:build verif

package main

import (
	"syscall"
	"encoding/json"
	"fmt"
	"os"
	"path/filepath"
	"regexp"
	"sort"
	"strconv"
	"strings"
	"time"

	sp "github.com/scipipe/scipipe"
	"github.com/scipipe/scipipe/components"
	"vs"
)

// C17: streaming outputs. Real mkfifo, real bash producer / consumer processes (exec seam in
// "async" mode: a thread blocks on "my child exited", exits are observed only when no
// controlled thread can run, a child whose whole process tree is blocked on a FIFO is
// declared stuck from kernel evidence in /proc/<pid>/stack).

func init() { specialJobs["stream"] = runStreamJob }

func runStreamJob(job *Job, res *Result) {
	if job.Base == "" {
		job.Base = fmt.Sprintf("/dev/shm/vw-%d", os.Getpid())
	}
	n, _ := strconv.Atoi(job.Args["n"])
	size, _ := strconv.Atoi(job.Args["size"])
	maxT, _ := strconv.Atoi(job.Args["max"])
	rerun := job.Args["rerun"] == "1"
	mixed := job.Args["mixed"] == "1" // the producer also has an ordinary (non-streaming) output
	stale := job.Args["stale"] == "1" // a regular file already sits at the streaming output's path (history: the port used to be {o:..})
	staleFifo := job.Args["stalefifo"] == "1" // a REGULAR file sits at <path>.fifo before the run
	absOut := job.Args["absout"] == "1" // the streaming output is declared with an ABSOLUTE path in a not-yet-existing directory
	midParent := job.Args["midparent"] == "1" // ... with a path that has a "../" in it: sub/../<name>.stream
	leftFifo := job.Args["leftover_fifo"] == "1" // a named pipe left by a killed run sits at <path>.fifo
	modCons := job.Args["modcons"] == "1" // the consumer names its streamed input through a modifier that looks at the END of the path
	logCons := job.Args["logcons"] == "1" // (with mixed) a further process consumes the producer's ORDINARY output
	hdr := job.Args["hdr"] == "1"     // the consumer has a SECOND, ordinary in-port fed by a quick source (closed long before the producer is done)
	spy := job.Args["spy"] == "1"     // a pass-through process between producer and consumer notes the order of the streamed IPs
	res.Scenario = fmt.Sprintf("stream/n=%d/payload=%d/max=%d", n, size, maxT)
	if mixed {
		res.Scenario += "/mixed-outputs"
	}
	if rerun {
		res.Scenario += "/rerun"
	}
	if stale {
		res.Scenario += "/stale-file-at-stream-path"
	}
	if spy {
		res.Scenario += "/spy"
	}
	if hdr {
		res.Scenario += "/consumer-with-second-in-port"
	}
	if modCons {
		res.Scenario += "/consumer-input-through-suffix-modifier"
	}
	if logCons {
		res.Scenario += "/ordinary-output-consumed"
	}
	if job.Args["cores"] != "" {
		res.Scenario += "/producer-and-consumer-" + job.Args["cores"] + "-slots-each/side-task-" + job.Args["sidecores"] + "-slots"
	}
	if job.Args["postcores"] != "" {
		res.Scenario += "/then-a-task-needing-" + job.Args["postcores"] + "-slots"
	}
	if job.ForceAll >= 0 {
		res.Scenario += fmt.Sprintf("/maporder=%d", job.ForceAll)
	}
	vs.ForceAll = job.ForceAll
	if staleFifo {
		res.Scenario += "/regular-file-at-fifo-path"
	}
	if leftFifo {
		res.Scenario += "/leftover-fifo"
	}
	if absOut {
		res.Scenario += "/absolute-stream-path"
	}
	if midParent {
		res.Scenario += "/stream-path-with-parent-step"
	}
	op := "" // where the streamed file / the consumer's copy live, relative to the working directory
	if absOut {
		op = "abs/new/"
	}
	dir := filepath.Join(job.Base, "e")
	vs.EventsDependent = false
	vs.ExecMode = "async"
	vs.StuckCap = 20 * time.Second
	payload := func(i int) string { return strings.Repeat(string(rune('a'+i)), size) }
	var before map[string]string
	setup := func() {
		os.Chdir("/")
		os.RemoveAll(dir)
		os.MkdirAll(dir, 0777)
		if job.SeedDir != "" {
			vs.CopyTree(job.SeedDir, dir)
		}
		os.Chdir(dir)
		vs.Cwd = dir
		vs.TmpRoot = filepath.Join(job.Base, "tmp")
		os.MkdirAll(vs.TmpRoot, 0777)
		for i := 0; i < n; i++ {
			os.WriteFile(fmt.Sprintf("in%d.txt", i), []byte(payload(i)), 0644)
			if stale {
				os.WriteFile(fmt.Sprintf("in%d.txt.stream", i), []byte("STALE"), 0644)
			}
			if staleFifo {
				os.WriteFile(fmt.Sprintf("in%d.txt.stream.fifo", i), []byte("STALE FIFO"), 0644)
			}
			if midParent {
				os.MkdirAll("sub", 0777) // the directory the path steps through exists
			}
			if leftFifo {
				syscall.Mkfifo(fmt.Sprintf("in%d.txt.stream.fifo", i), 0644)
			}
		}
		if hdr {
			os.WriteFile("hdr0.txt", []byte("HDR\n"), 0644)
		}
		if job.Args["sidecores"] != "" {
			os.WriteFile("side0.txt", []byte("SIDE\n"), 0644)
		}
		before = statAll(".")
		errLog.Reset()
	}
	body := func() {
		os.Setenv("SCIPIPE_BUFSIZE", "2")
		wf := sp.NewWorkflowCustomLogFile("w", maxT, "/dev/null")
		src := components.NewFileSource(wf, "src", srcItems("in", n)...)
		prodCmd := "cat {i:in} > {os:out}"
		if mixed {
			prodCmd += " && echo done > {o:log}"
		}
		prod := wf.NewProc("prod", prodCmd)
		prod.SetOut("out", "{i:in}.stream")
		if absOut {
			prod.SetOut("out", dir+"/abs/new/{i:in|basename}.stream")
		}
		if midParent {
			prod.SetOut("out", "sub/../{i:in}.stream")
		}
		if mixed {
			prod.SetOut("log", "{i:in}.log")
		}
		consCmd := "cat {i:in} > {o:out}"
		if hdr {
			consCmd = "cat {i:hdr} {i:in} > {o:out}"
		}
		if modCons {
			// "<path>.fifo" with its suffix cut off and put back: the same pipe
			consCmd = "cat {i:in|%.fifo}.fifo > {o:out}"
		}
		cons := wf.NewProc("cons", consCmd)
		cons.SetOut("out", "{i:in}.copy")
		if hdr {
			hs := components.NewFileSource(wf, "hsrc", srcItems("hdr", 1)...)
			cons.In("hdr").From(hs.Out())
		}
		prod.In("in").From(src.Out())
		if spy {
			sp1 := newSpy(wf, "spy")
			sp1.InPort("in").From(prod.Out("out"))
			cons.In("in").From(sp1.OutPort("out"))
		} else {
			cons.In("in").From(prod.Out("out"))
		}
		if pc, _ := strconv.Atoi(job.Args["cores"]); pc > 0 {
			// multi-slot producer and consumer: each gets ALL its slots or none while it waits
			prod.CoresPerTask = pc
			cons.CoresPerTask = pc
		}
		if sc, _ := strconv.Atoi(job.Args["sidecores"]); sc > 0 {
			// an unrelated multi-slot task competing for the slots at the same time
			ssrc := components.NewFileSource(wf, "ssrc", "side0.txt")
			side := wf.NewProc("side", "cat {i:in} > {o:out}")
			side.SetOut("out", "{i:in}.side")
			side.CoresPerTask = sc
			side.In("in").From(ssrc.Out())
		}
		if pc, _ := strconv.Atoi(job.Args["postcores"]); pc > 0 {
			// a process behind the consumer whose tasks need pc slots: they get them only if the streaming
			// pair has handed ALL its slots back
			post := wf.NewProc("post", "cat {i:in} > {o:out}")
			post.SetOut("out", "{i:in}.post")
			post.CoresPerTask = pc
			post.In("in").From(cons.Out("out"))
		}
		if logCons && mixed {
			lc := wf.NewProc("lc", "cat {i:in} > {o:out}")
			lc.SetOut("out", "{i:in}.seen")
			lc.In("in").From(prod.Out("log"))
		}
		wf.Run()
		vs.Note("COMPLETED")
	}
	seen := map[string]bool{}
	outcomes := map[string]bool{}
	savedFinal := false
	var deadline time.Time
	if job.Budget > 0 {
		deadline = time.Now().Add(time.Duration(job.Budget * float64(time.Second)))
	}
	visit := func(s *vs.Sched) bool {
		tree := vs.ReadTree(".")
		oc := s.Outcome
		if strings.Contains(oc, "replay divergence") || strings.Contains(oc, "panic:vs:") || strings.HasPrefix(oc, "unsupported:") {
			res.Error = "engine error: " + oc
			return false
		}
		add := func(class, detail, sig string) {
			if sig == "" {
				sig = res.Scenario + "|" + class + "|" + detail
			}
			if seen[sig] {
				return
			}
			seen[sig] = true
			if job.Args["only_order"] == "1" && class != "stream-order" {
				return // this job judges the emission order only (C08); everything else is C17's business
			}
			if oc := job.Args["only_classes"]; oc != "" && !has(strings.Split(oc, ","), class) {
				return // this job judges only the named classes (the rest is C17's business)
			}
			if job.Args["only_leftover"] == "1" && class != "adopted-leftovers" {
				return
			}
			if job.Args["only_slots"] == "1" && class != "slots-exceeded" {
				return // this job judges the slot bound only (C06)
			}
			v := Violation{Prop: job.Prop, Class: class, Detail: detail, Signature: sig, Job: job.ID}
			if job.ReplayDir != "" {
				os.MkdirAll(job.ReplayDir, 0777)
				j := *job
				j.Mode = "replay"
			j.PureBuf = vs.PureBuf
				j.Replay = s.ReplayChoices()
				j.Base = ""
				fn := filepath.Join(job.ReplayDir, fmt.Sprintf("%s-%x.json", sanitize(job.ID), hash32(sig)))
				b, _ := json.MarshalIndent(map[string]interface{}{"job": j, "violation": v, "stuck_children": s.StuckChildren(), "notes": s.NoteList()}, "", " ")
				os.WriteFile(fn, b, 0644)
				v.Replay = fn
			}
			res.Violations = append(res.Violations, v)
		}
		files := []string{}
		for p, c := range tree {
			if c != "<dir>" && !strings.HasSuffix(p, ".audit.json") {
				files = append(files, fmt.Sprintf("%s(%d)", p, len(c)))
			}
		}
		sort.Strings(files)
		outcomes[oc+"|"+strings.Join(files, " ")] = true
		if len(res.Samples) < 2 {
			res.Samples = append(res.Samples, fmt.Sprintf("schedule[%s] outcome[%s] files[%s] stuck[%v] max-live-children[%d]", s.ScheduleString(30), oc, strings.Join(files, " "), s.StuckChildren(), s.MaxLiveChildren()))
		}
		if m := s.MaxLiveChildren(); m > maxT {
			add("slots-exceeded", fmt.Sprintf("%d commands (1 core each) executing at the same time with maxConcurrentTasks=%d", m, maxT), "")
		}
		stuck := s.StuckChildren()
		if oc == "deadlock" && len(stuck) > 0 {
			cls := "hang"
			who := "a child process"
			if strings.Contains(strings.Join(stuck, " "), ".stream.fifo") && strings.Contains(strings.Join(stuck, " "), "> ") {
				who = "the producer (blocked opening a FIFO nobody reads)"
			}
			sig := ""
			if rerun && !mixed {
				sig = "stream-rerun|producer-blocks-on-fifo"
			}
			add(cls, fmt.Sprintf("the run never terminates: %s is stuck: %v", who, stuck), sig)
			return len(res.Violations) < 5
		}
		if leftFifo {
			// C03: leftovers that were not removed make the re-run stop, they are never adopted
			if !(strings.HasPrefix(oc, "exit:") && oc != "exit:0") {
				add("adopted-leftovers", fmt.Sprintf("a FIFO left behind by a killed run was present, but the re-run ended with outcome '%s' instead of stopping with a non-zero status", oc), "")
			}
			return len(res.Violations) < 5
		}
		if staleFifo && strings.HasPrefix(oc, "exit:") && oc != "exit:0" {
			// refusing to run over the leftover is fine, as long as nothing was handed on or touched
			for i := 0; i < n; i++ {
				in := fmt.Sprintf("in%d.txt", i)
				if c := tree[in+".stream.fifo"]; c != "STALE FIFO" {
					add("stale-file-modified", "the regular file at "+in+".stream.fifo was modified by a run that refused to start", "")
				}
				if _, ok := tree[in+".stream.copy"]; ok {
					add("consumer-ran-on-leftover", "the consumer produced "+in+".stream.copy from a leftover at the FIFO path", "")
				}
			}
			return len(res.Violations) < 5
		}
		if oc != "" {
			add("unexpected-outcome", oc+" "+logStamp.ReplaceAllString(firstLine(errLog.String()), ""), "")
			return len(res.Violations) < 5
		}
		for i := 0; i < n; i++ {
			in := fmt.Sprintf("in%d.txt", i)
			cp := op + in + ".stream.copy"
			got, ok := tree[cp]
			if !ok {
				add("missing-output", "consumer output "+cp+" does not exist", "")
			} else if hdr && got != "HDR\n"+payload(i) {
				add("wrong-bytes", fmt.Sprintf("consumer output %s holds %d bytes, expected the header line + the %d bytes the producer wrote", cp, len(got), size), "")
			} else if !hdr && got != payload(i) {
				add("wrong-bytes", fmt.Sprintf("consumer output %s holds %d bytes, the producer wrote %d (first difference at %d)", cp, len(got), size, firstDiff(got, payload(i))), "")
			}
			if c, ok := tree[op+in+".stream"]; ok && stale {
				if c != "STALE" {
					add("stale-file-modified", fmt.Sprintf("the file that was at the streaming path %s.stream before the run now holds %d bytes", in, len(c)), "")
				}
			} else if ok {
				add("regular-file-at-stream-path", fmt.Sprintf("a %s exists at the streaming output path %s.stream", kindOf(c), in), "")
			}
			if logCons && mixed {
				if got, ok := tree[in+".log.seen"]; !ok || got != "done\n" {
					add("ordinary-output-not-delivered", fmt.Sprintf("the producer's ordinary output %s.log was not delivered to its consumer (%s.log.seen: %q)", in, in, got), "")
				}
			}
			if a, ok := tree[cp+".audit.json"]; ok {
				var rec auditRec
				if err := json.Unmarshal([]byte(a), &rec); err != nil {
					add("audit-invalid", cp+".audit.json is not valid JSON", "")
				} else if up := rec.Upstream[map[bool]string{false: map[bool]string{false: in + ".stream", true: "sub/../" + in + ".stream"}[midParent], true: dir + "/abs/new/" + in + ".stream"}[absOut]]; up == nil {
					add("audit-upstream", "the consumer's audit record does not name "+in+".stream as upstream", "")
				} else if !rerun && up.ProcessName != "prod" {
					add("audit-upstream", fmt.Sprintf("upstream record of %s.stream names process %q, expected the producer", in, up.ProcessName), "")
				}
			} else {
				add("audit-missing", cp+" has no audit file", "")
			}
			if rerun {
				if st := statAll(".")[cp]; st != before[cp] {
					_ = st
					add("rerun-modified", fmt.Sprintf("the consumer's output %s was modified by the second run (inode / mtime_ns / size changed)", cp), "")
				}
			}
		}
		if spy {
			got := []string{}
			for _, nt := range s.NoteList() {
				if strings.HasPrefix(nt, "spy:") {
					got = append(got, strings.TrimPrefix(nt, "spy:"))
				}
			}
			want := []string{}
			for i := 0; i < n; i++ {
				want = append(want, fmt.Sprintf("in%d.txt.stream", i))
			}
			if strings.Join(got, ",") != strings.Join(want, ",") {
				add("stream-order", fmt.Sprintf("streamed items left the producer's out-port in the order %v, their inputs arrived in the order %v", got, want), "")
			}
		}
		for p, c := range tree {
			if c == "<fifo>" || strings.HasSuffix(p, ".fifo") {
				add("fifo-left", "named pipe "+p+" is left behind", "")
			}
			if isTemp(p) {
				add("tempdir-left", "temp entry "+p+" is left behind", "")
				break
			}
		}
		if job.SaveFinal != "" && !savedFinal {
			savedFinal = true
			os.RemoveAll(job.SaveFinal)
			vs.CopyTree(".", job.SaveFinal)
		}
		return len(res.Violations) < 5
	}
	switch job.Mode {
	case "replay":
		s := vs.Replay(setup, body, job.Replay)
		visit(s)
		res.Stats = vs.Stats{Mode: "replay", Execs: 1, Transitions: s.StepCount(), Nodes: s.StepCount(), Closed: true}
	default:
		res.Stats = vs.ExploreNaive(setup, body, visit, false, job.Delay, deadline)
	}
	res.NOutcomes = len(outcomes)
}

var logStamp = regexp.MustCompile(`\d{4}/\d\d/\d\d \d\d:\d\d:\d\d `)

func firstDiff(a, b string) int {
	for i := 0; i < len(a) && i < len(b); i++ {
		if a[i] != b[i] {
			return i
		}
	}
	if len(a) < len(b) {
		return len(a)
	}
	return len(b)
}

func kindOf(c string) string {
	if c == "<fifo>" {
		return "named pipe"
	}
	if c == "<dir>" {
		return "directory"
	}
	return "regular file"
}

// spyProc forwards IPs unchanged and notes the order in which it received them.
type spyProc struct {
	sp.BaseProcess
}

func newSpy(wf *sp.Workflow, name string) *spyProc {
	p := &spyProc{BaseProcess: sp.NewBaseProcess(wf, name)}
	p.InitInPort(p, "in")
	p.InitOutPort(p, "out")
	wf.AddProc(p)
	return p
}

func (p *spyProc) Run() {
	defer p.CloseAllOutPorts()
	for ip := range p.InPort("in").Chan {
		vs.Note("spy:" + normPath(ip.Path()))
		p.OutPort("out").Send(ip)
	}
}
