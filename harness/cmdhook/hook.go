package main

// Verification hook for check C20 (never part of /repo): prep.sh copies this file next to a
// scratch copy of /repo/cmd/scipipe/*.go as zz_verif_hook.go and builds the result against an
// UN-instrumented scratch copy of /repo as <scratch>/vc20. Without one of the two extra
// sub-commands below the binary is exactly the scipipe CLI (audit2html / audit2tex /
// audit2bash ...), which is how the harness (harness/c20.go) uses it for single conversions.
//
//	vc20 verif-batch <list>   every line of <list> is "<html|tex|bash>\t<in.audit.json>\t<out>":
//	                          the conversion function the CLI dispatches to is called in-process
//	                          (same arguments as parseFlags: flatten=true); one status line per
//	                          input line is written to <list>.done ("ok" / "err: ..." / "panic: ...")
//	vc20 verif-wf <name>      runs one of a handful of small real workflows (real goroutines, real
//	                          bash, real clock) in the current directory
//
// No oracle lives here: this file only exposes the real code to the harness.

import (
	"bufio"
	"fmt"
	"io/ioutil"
	"os"
	"strings"

	"github.com/scipipe/scipipe"
	"github.com/scipipe/scipipe/components"
)

func init() {
	if len(os.Args) < 3 {
		return
	}
	switch os.Args[1] {
	case "verif-batch":
		os.Exit(verifBatch(os.Args[2]))
	case "verif-wf":
		os.Exit(verifWorkflow(os.Args[2]))
	}
}

func verifBatch(list string) int {
	f, err := os.Open(list)
	if err != nil {
		fmt.Fprintln(os.Stderr, "verif-batch:", err)
		return 2
	}
	defer f.Close()
	done, err := os.Create(list + ".done")
	if err != nil {
		fmt.Fprintln(os.Stderr, "verif-batch:", err)
		return 2
	}
	w := bufio.NewWriter(done)
	defer func() { w.Flush(); done.Close() }()
	// the conversion functions report success on stdout
	stdout := os.Stdout
	if null, err := os.OpenFile("/dev/null", os.O_WRONLY, 0); err == nil {
		os.Stdout = null
		defer func() { os.Stdout = stdout }()
	}
	initLogsTest()
	sc := bufio.NewScanner(f)
	sc.Buffer(make([]byte, 1<<20), 1<<20)
	for sc.Scan() {
		p := strings.Split(sc.Text(), "\t")
		if len(p) != 3 {
			fmt.Fprintln(w, "err: malformed line")
			continue
		}
		status := "ok"
		func() {
			defer func() {
				if r := recover(); r != nil {
					status = fmt.Sprint("panic: ", r)
				}
			}()
			var err error
			switch p[0] {
			case "html":
				err = auditInfoToHTML(p[1], p[2], true)
			case "tex":
				err = auditInfoToTeX(p[1], p[2], true)
			case "bash":
				err = auditInfoToBash(p[1], p[2], true)
			default:
				status = "err: unknown format " + p[0]
			}
			if err != nil {
				status = "err: " + err.Error()
			}
		}()
		fmt.Fprintln(w, strings.Replace(status, "\n", " ", -1))
		w.Flush() // a scipipe.Fail (os.Exit) in a later conversion must not lose the earlier lines
	}
	return 0
}

// verifWorkflow: small real workflows whose files all live in the working directory. The
// source files (src*.txt) are expected to exist already.
func verifWorkflow(name string) int {
	scipipe.InitLog(ioutil.Discard, ioutil.Discard, ioutil.Discard, ioutil.Discard, ioutil.Discard, os.Stderr)
	wf := scipipe.NewWorkflowCustomLogFile("c20"+name, 4, "/dev/null")
	switch name {
	case "hello":
		// the workflow of the README (index.md): no source files at all
		hello := wf.NewProc("hello", "echo 'Hello ' > {o:out}")
		hello.SetOut("out", "hello.out.txt")
		world := wf.NewProc("world", "echo $(cat {i:in}) World > {o:out}")
		world.SetOut("out", "{i:in|%.txt}.world.txt")
		world.In("in").From(hello.Out("out"))
	case "fanin":
		// two source files without a producing task, one task with two inputs and a parameter
		a := components.NewFileSource(wf, "srca", "srca.txt")
		b := components.NewFileSource(wf, "srcb", "srcb.txt")
		c := wf.NewProc("cat_two", "cat {i:a} {i:b} > {o:out}; echo {p:x} >> {o:out}")
		c.SetOut("out", "merged.txt")
		c.InParam("x").FromStr("hello")
		c.In("a").From(a.Out())
		c.In("b").From(b.Out())
		d := wf.NewProc("upper", "tr a-z A-Z < {i:in} > {o:out}")
		d.SetOut("out", "{i:in|%.txt}.upper.txt")
		d.In("in").From(c.Out("out"))
	case "diamond":
		// one source reached through two paths
		s := components.NewFileSource(wf, "src", "srca.txt")
		l := wf.NewProc("left", "sed 's/^/L:/' {i:in} > {o:out}")
		l.SetOut("out", "{i:in|%.txt}.left.txt")
		l.In("in").From(s.Out())
		r := wf.NewProc("right", "sed 's/^/R:/' {i:in} > {o:out}")
		r.SetOut("out", "{i:in|%.txt}.right.txt")
		r.In("in").From(s.Out())
		j := wf.NewProc("join_lr", "paste -d, {i:l} {i:r} > {o:out}")
		j.SetOut("out", "joined.txt")
		j.In("l").From(l.Out("out"))
		j.In("r").From(r.Out("out"))
	case "params":
		// one process, three tasks (one per parameter value), joined through a sub-stream
		e := wf.NewProc("emit", "echo {p:v} > {o:out}")
		e.SetOut("out", "emit.{p:v}.txt")
		e.InParam("v").FromStr("x1", "x2", "x3")
		sts := components.NewStreamToSubStream(wf, "sts")
		sts.In().From(e.Out("out"))
		c := wf.NewProc("collect", "cat {i:in|join: } | sort > {o:out}")
		c.SetOut("out", "collected.txt")
		c.In("in").From(sts.OutSubStream())
	case "twoout":
		// a task with two outputs, both consumed by one downstream task
		s := components.NewFileSource(wf, "src", "srca.txt")
		sp := wf.NewProc("split2", "head -n 1 {i:in} > {o:first}; tail -n +2 {i:in} > {o:rest}")
		sp.SetOut("first", "{i:in|%.txt}.first.txt")
		sp.SetOut("rest", "{i:in|%.txt}.rest.txt")
		sp.In("in").From(s.Out())
		m := wf.NewProc("swap", "cat {i:rest} {i:first} > {o:out}")
		m.SetOut("out", "swapped.txt")
		m.In("first").From(sp.Out("first"))
		m.In("rest").From(sp.Out("rest"))
	default:
		fmt.Fprintln(os.Stderr, "verif-wf: unknown workflow", name)
		return 2
	}
	wf.Run()
	return 0
}
