#!/usr/bin/env python3
"""Regenerates MANIFEST.json from the table below (kept in one place so that it stays valid)."""
import json, subprocess

CHECKS = {
 "C04": ("model_checking", "2.3, 5/C04", "stateless model checking of the instrumented implementation: DPOR + sleep sets over every schedule of 30+ workflow scenarios (delay bound 2 where not closed) + forced map-iteration orders; oracle = reference evaluation of the workflow spec (executed-task multiset, files, contents) and a single terminal outcome per scenario; partial runs (RunTo) through parameter connections; a memory-level pass on the race-instrumented build (map operations and mutable fields are scheduling points too)",
         "Exhaustive over schedules inside the listed scenario bounds (graphs G2-G9/G12/G14, <= 3 items, buffers 1-2, <= 3 slots); says nothing beyond those bounds."),
 "C05": ("model_checking", "2.3, 5/C05", "stateless model checking (DPOR + sleep sets) with start/end/return events mutually dependent: at the state in which the main thread returns from Run/RunTo every started task has ended, every reference output is final, no temp dir/FIFO exists; deadlock = no enabled thread; environment deviations: a single injected I/O error at every file-system operation, forced range-over-map orders",
         "Exhaustive over schedules and event orders inside the scenario bounds; streaming excluded (C17)."),
 "C06": ("model_checking", "2.3, 5/C06", "stateless model checking (DPOR + sleep sets) of the slot protocol on the real Task.Execute / IncConcurrentTasks code: all multisets of CoresPerTask over k<=4 ready tasks, start/end events mutually dependent, invariant checked on every prefix of every event order; Go functions, shell commands, prepended launchers, streaming pairs (live children of real bash), oversize and zero-core tasks; timers (time.After) are environment events that may land at any point, constructs outside the validated dependency table (blocking select with a send case) are decided by the unreduced enumeration",
         "Every overlap configuration of the tasks is a distinct trace and is visited; bounds: k<=4 tasks, max<=3."),
 "C07": ("model_checking", "2.3, 5/C07", "stateless model checking (DPOR + sleep sets): deadlock freedom of token-by-token acquisition for all cores multisets; work conservation as reachability made mandatory (barrier inside the task bodies deadlocks if the library serialises); oversize CoresPerTask (also with maxConcurrentTasks = 0) rejected in every schedule; an outside actor creating a queued task's output at every possible moment; two workflows in one program (each with its own slots) and a task whose body runs an inner workflow",
         "bounds: k<=4 tasks, max<=4."),
 "C08": ("model_checking", "2.3, 5/C08", "stateless model checking (DPOR + sleep sets): every completion order of parallel tasks is a schedule; a recorder process observes the out-port; sequence must equal the reference arrival order (per upstream through fan-in); multi-out-port tasks, two receivers, streaming out-ports, joined in-ports; environment deviations: a single injected I/O error at every file-system operation, a lagging file system (one look at an existing output answers ENOENT) under every schedule",
         "bounds: <= 3 items (4 in thorough), chains and fan-in."),
}

CHECKS.update({
 "C01": ("fault_enumeration", "2.3, 5/C01", "exhaustive crash-point and fault enumeration on the implementation: the disk after EVERY file-system mutation of every explored schedule (DPOR + sleep sets, FS mutations globally dependent with one task in flight; delay-bounded with two) x 5 failure kinds per task at the exec seam; state predicate on every such disk: a declared output that exists is complete and its task ended successfully, unfinished work is confined to _scipipe_tmp*",
         "kill = process-group kill (completed syscalls persist); the .audit.json side-car is not an output file; bounds: graphs G2/G3/G4/G7/G8/G14a, <= 2 items."),
 "C02": ("fault_enumeration", "5/C02", "exhaustive history enumeration x schedule exploration: every non-empty subset of tasks with pre-existing outputs (reference / user bytes, with / without audit file) under every Mazurkiewicz trace; online monitor in the FS seam for mutating calls on protected files + (inode, mtime, size, bytes) comparison; complete-run-then-rerun history",
         "bounds: graphs G2/G3/G6b/G7/G8, <= 2 items; multi-output tasks all-or-none."),
 "C03": ("fault_enumeration", "2.3, 5/C03", "exhaustive crash-state enumeration with seeded recovery: every DISTINCT disk digest after every FS mutation of every explored schedule is copied and recovered from (R1 as is, R2 after cleanup), recovery runs explored over all schedules and themselves crashed once more (depth 2)",
         "recovery is a function of the disk state; kill = process kill; bounds as in C01."),
 "C09": ("fault_enumeration", "5/C09", "every choice of failing task x failure kind (genuine *exec.ExitError values at the exec seam; killed; missing output; unformable task) under every Mazurkiewicz trace of the concurrently running rest: exit != 0, no completion marker, failed outputs never final, no dependent task starts",
         "bounds: graphs G3/G4/G7/G8, <= 2 items (more in thorough)."),
 "C14": ("exploration", "5/C14", "small-scope exhaustive enumeration: all task identities over a small alphabet built with NewTask; all pairs compared by grouping on TempDir() (in-paths incl. a folder named like its parent: a/a/b, ../../a); length boundary 180..262; every map-iteration order",
         "exhaustive inside the alphabet only; no sampling of long random values (outside the technique)."),
 "C16": ("model_checking", "5/C16", "every single edge left unconnected (refused before any start event, every schedule); dangling out-ports drained; EVERY non-empty subset of processes as RunTo targets by name / regex / value: started processes = reference upstream closure over file and parameter edges, exactly once, C05 return predicate; schedules by DPOR + sleep sets",
         "bounds: graphs G3-G8/G11 with 1-2 items."),
 "C18": ("model_checking", "5/C18", "src(k) -> StreamToSubStream -> {i:x|join:SEP}: k in 0..4 (beyond the buffer), 3 separators, 3 modifier settings, every Mazurkiewicz trace; exactly one task, argument string = members in emission order, members resolve from the temp dir, audit Upstream = members; multi-character separators, absolute members, reverse name order, two joined in-ports under forced map orders",
         "documentation is silent on join + relocating modifier: only order and names are judged there."),
})

CHECKS.update({
 "C10": ("model_checking", "5/C10", "every Mazurkiewicz trace of 12+ scenarios (commands and Go functions, multi-input/-output, fan-in, params, tagging, join) + forced map orders: each finalized output's .audit.json compared field by field with the reference lineage tree; plus the instant form: at every crash point of every schedule and after failing sibling tasks a finalized output has a valid audit file",
         "IDs / absolute times not compared; G14 (tagging on a fan-out arm) judged under C12."),
 "C11": ("fault_enumeration", "5/C11", "exhaustive history enumeration x schedule exploration: every RunTo prefix then Run; every distinct crash state + cleanup + resume; complete run then EVERY non-empty subset of task outputs deleted and re-run; lineage of every final output = reference lineage, untouched ancestors' records byte-identical, write->read->marshal identity",
         "bounds: graphs G3/G7/G8/G14a (+G6/G6b thorough), <= 2 items."),
 "C12": ("model_checking", "5/C12", "race-instrumented build (maps + struct fields assigned after construction are visible memory accesses) explored by DPOR + sleep sets / delay bounding; happens-before monitor from synchronisation edges only; unordered conflicting accesses in any explored execution = race (both functions reported); package-level variables, calls on thread-unsafe library values and json.Marshal of a record (a read of the maps it holds) are accesses too; sync.Once / RWMutex / sync/atomic are modelled from the validated mutex",
         "dynamic happens-before: a race is reported only if some explored execution leaves the two accesses unordered; slice elements and loop conditions are not instrumented."),
 "C13": ("exploration", "5/C13", "small-scope exhaustive enumeration of a path grammar (5 prefixes x <= 2 (3) directory segments x 10 segment shapes incl. placeholder look-alikes, inputs, extra files) - 21k (248k) one-task workflows executed with REAL bash; token must be at exactly the declared path and nowhere else, input resolved from inside the temp dir, extras at the same relative location; a shard each under process names with '/', blanks and capitals",
         "single task: no interleaving to explore; kernel / bash observed, not scheduled."),
 "C15": ("exploration", "5/C15", "small-scope exhaustive enumeration of a pattern grammar (literals and {i:} {o:} {p:} {t:} placeholders with modifier chains of basename, dirname, %suffix, s/a/b/; single placeholders, all ordered pairs and triples; command patterns and SetOut patterns; missing-value cases; default output names under every map-iteration order and every single-component change) - 178k cases quick / 3.3M thorough - built through NewProc/SetOut/NewTask and compared with a reference written from the documentation",
         "the reference is silent where the documentation is (search string occurring twice, suffix equal to the whole value, dirname directly under /)."),
 "C17": ("model_checking", "5/C17", "real mkfifo + real bash producer/consumer under the controlled scheduler (async exec seam, exits observed only at quiescence, stuck children recognised from /proc/<pid>/stack); all schedules with <= 1 delay x payload sizes around the pipe buffer x slot counts; then the history run-again-in-place (both orders of the out-IP map); stale files / leftover FIFOs at the paths, absolute and parent-stepping streaming paths, a consumer with a second in-port",
         "delay-bounded (k=1), not closed; the inside of the kernel pipe is not scheduled."),
 "C19": ("model_checking", "5/C19", "real components wired to recorder processes: combinators x port counts x stream lengths x every map-iteration variant x schedules (DPOR closed / delay bound 1); selector x ALL predicate patterns; splitter x line counts x limits x final newline; concatenator, sources, readers, globber against an independent matcher",
         "bounds: <= 3 (4) ports, lengths <= 2 (+ beyond buffer), <= 7 lines."),
 "C20": ("exploration", "5/C20", "small-scope exhaustive enumeration of audit lineage DAGs (79 shapes up to isomorphism, every weak order of start times incl. all tie patterns, 12 naming/param/tag/time-notation modes = 24.6k trees quick / 908k thorough) through the real audit2html / audit2tex / audit2bash code + 354 generated bash scripts re-executed with real bash",
         "layout / escaping / displayed times not judged."),
})
NA = {}
for c in ("C01","C02","C03","C09","C10","C11","C12","C13","C14","C15","C16","C17","C18","C19","C20"):
    if c not in CHECKS:
        NA[c] = "check under construction in this session (planned: see DESIGN.md section 5); not claimed until its quick command runs clean"

m = {
 "version": 1,
 "setup_cmd": "bash /verif/setup.sh",
 "hooks": {
  "guard": "verif",
  "enable": "no hooks live in /repo: every check rewrites /repo's current working tree with engine/vinstr into a scratch module under /dev/shm and builds it with -tags verif against the controlled runtime engine/vs",
  "baseline_off_cmd": "cd /repo && go test -vet=off -count=1 ./...",
  "source_commits": [],
  "add_only": True
 },
 "engines": [
  {"name": "vs", "path": "engine/vs", "serves_properties": sorted(CHECKS), "kind_free_text": "hand-written stateless model checker for Go: cooperative scheduler + DPOR with sleep sets, unreduced reference explorer, delay bounding, crash-state collector, happens-before race monitor"},
  {"name": "vinstr", "path": "engine/vinstr", "serves_properties": sorted(CHECKS), "kind_free_text": "go/ast + go/types source-to-source pass that routes goroutines, channels, select, sync, map order, clock, exit, FS and exec of /repo through vs"},
  {"name": "harness", "path": "harness", "serves_properties": sorted(CHECKS), "kind_free_text": "scenario DSL, reference evaluator and per-property oracles; vcheck.py/jobs.py drive 16 worker processes"}
 ],
 "checks": [],
 "notes": "fix commits in /repo: see known_findings.json (status fixed). Exit codes: 0 held, 1 VIOLATION, 2 machinery failure (never reported as a violation).",
 "not_applicable": [{"property_id": k, "reason": v} for k, v in sorted(NA.items())]
}
for pid, (level, ref, text, note) in sorted(CHECKS.items()):
    m["checks"].append({
        "property_id": pid,
        "quick_cmd": f"python3 /verif/vcheck.py {pid} --tier quick",
        "thorough_cmd": f"python3 /verif/vcheck.py {pid} --tier thorough",
        "evidence_file": f"/verif/evidence/{pid}.json",
        "replay_cmd_template": "python3 /verif/vcheck.py --replay {path}",
        "engine": "vs",
        "level_claimed": {"category": level, "text": text, "design_ref": ref},
        "level_note": note + " Trusted base: the shim's channel/mutex semantics (conformance corpus, cross-checked against the unreduced explorer in setup), vinstr's rewriting, the reference evaluator.",
        "technique": ("small-scope exhaustive enumeration of a finite input grammar on the real code against a reference model (bounded exhaustive exploration)" if level == "exploration" else "bounded exhaustive model checking of the implementation (DPOR + sleep sets under a controlled scheduler; delay bounding as fallback)" + ("; exhaustive crash-point / fault / history enumeration" if level == "fault_enumeration" else "")),
    })
json.dump(m, open("/verif/MANIFEST.json", "w"), indent=1)
print("checks:", [c["property_id"] for c in m["checks"]])
