#!/bin/bash
# mut.sh <patch.diff> <tier> <Cxx>... : apply a seeded change to /repo, run the checks, undo it.
P=$1; T=$2; shift; shift
cd /repo && git apply "$P" || { echo "patch does not apply"; exit 3; }
for c in "$@"; do
  python3 /verif/vcheck.py $c --tier $T --no-evidence 2>&1 | grep -E "^(VIOLATION|KNOWN|ENGINE|INSTRUMENT|BUILD|$c )" | cut -c1-260 | head -${HEADN:-6}
done
cd /repo && git checkout -- . && git status --short | grep -v "^??"
