#!/usr/bin/env python3
"""vcheck: driver of the scipipe model-checking harness.

  vcheck.py <Cxx> [--tier quick|thorough] [--jobs N] [--keep] [--only substr]
  vcheck.py --replay <file>

Builds a scratch copy of /repo's CURRENT working tree rewritten by engine/vinstr, compiles the
worker against it (-tags verif), runs the exploration jobs of the property on all cores,
aggregates their results into /verif/evidence/<id>.json and prints VIOLATION / KNOWN-FINDING
lines.  Exit 0: property held on everything explored (known findings are reported, not
alarmed); exit 1: a violation that known_findings.json does not list; exit 2: the machinery
itself failed (instrumentation error, replay divergence, vacuity) - never a VIOLATION.
"""
import json, os, re, subprocess, sys, time, shutil, argparse, hashlib
from concurrent.futures import ThreadPoolExecutor

V = os.path.dirname(os.path.abspath(__file__))
sys.path.insert(0, V)
import jobs as J  # noqa: E402

ENV = dict(os.environ, GOFLAGS="-mod=mod", GOPROXY="off", GOSUMDB="off", GOTOOLCHAIN="local")


def sh(cmd, **kw):
    return subprocess.run(cmd, shell=True, env=ENV, stdout=subprocess.PIPE, stderr=subprocess.STDOUT, text=True, **kw)


def build(scratch, race=False, cli=False, native=False):
    t0 = time.time()
    # cli: also build <scratch>/vc20, the scipipe CLI of the tree under check (plans with "cli": True)
    r = sh(f"{'VERIF_CLI=1 ' if cli else ''}{'VERIF_NATIVE=1 ' if native else ''}{V}/prep.sh {scratch} {'race' if race else ''}")
    if r.returncode != 0:
        print(r.stdout)
        kind = "INSTRUMENT-ERROR" if "INSTRUMENT-ERROR" in r.stdout else "BUILD-ERROR"
        print(f"{kind}: cannot build the instrumented worker from /repo's working tree")
        sys.exit(2)
    return time.time() - t0


def run_job(scratch, job, binary="vworker"):
    jf = os.path.join(scratch, "jobs", job["id"].replace("/", "_") + ".json")
    job.setdefault("base", f"/dev/shm/vw-{os.getpid()}-{hashlib.md5(job['id'].encode()).hexdigest()[:10]}")
    job.setdefault("force_all", -1)
    with open(jf, "w") as f:
        json.dump(job, f)
    t0 = time.time()
    hard = job.get("budget", 60) * 3 + 120
    try:
        exe = os.path.join(scratch, binary)
        if job.get("race") and os.path.exists(os.path.join(scratch, "rb", binary)):
            exe = os.path.join(scratch, "rb", binary)  # plans with "race_too": second, race-instrumented build
        p = subprocess.run([exe, "-job", jf], env=dict(ENV, GOMAXPROCS="1"), stdout=subprocess.PIPE, stderr=subprocess.PIPE, text=True, timeout=hard)
        out = p.stdout.strip().splitlines()
        res = json.loads(out[-1]) if out else {"error": "no output: " + p.stderr[-2000:]}
        if p.returncode not in (0, 2) and not res.get("error"):
            res["error"] = f"worker exit {p.returncode}: {p.stderr[-2000:]}"
    except subprocess.TimeoutExpired:
        res = {"error": f"worker exceeded its hard limit of {hard}s"}
    except Exception as e:  # noqa
        res = {"error": f"worker failed: {e}"}
    finally:
        shutil.rmtree(job["base"], ignore_errors=True)
    res["job"] = job
    res["wall"] = time.time() - t0
    if "replay divergence" in (res.get("error") or "") and not job.get("_retried"):
        # determinism is checked on every re-execution; a divergence is a hard error of the
        # machinery. One fresh attempt is made before giving up (reported in the evidence).
        job["_retried"] = True
        job.pop("base", None)
        r2 = run_job(scratch, job, binary)
        r2["retried_after"] = res["error"][:300]
        return r2
    return res


def load_known():
    p = os.path.join(V, "known_findings.json")
    if not os.path.exists(p):
        return []
    return json.load(open(p))


def classify(prop, sig, known):
    for k in known:
        if k.get("status") != "known" or k["property"] != prop:
            continue
        if re.search(k["signature"], sig):
            return k
    return None


def main():
    ap = argparse.ArgumentParser()
    ap.add_argument("prop", nargs="?")
    ap.add_argument("--tier", default=os.environ.get("VERIF_TIER", "quick"))
    ap.add_argument("--jobs", type=int, default=min(16, os.cpu_count() or 4))
    ap.add_argument("--keep", action="store_true")
    ap.add_argument("--only", default="")
    ap.add_argument("--replay")
    ap.add_argument("--no-evidence", action="store_true")
    a = ap.parse_args()
    seed = int(os.environ.get("VERIF_SEED", "0") or 0)
    t0 = time.time()
    scratch = f"/dev/shm/verif-{os.getpid()}"
    shutil.rmtree(scratch, ignore_errors=True)
    os.makedirs(scratch + "/jobs")
    code = 2
    try:
        if a.replay:
            rp = json.load(open(a.replay))
            job = rp["job"]
            build(scratch, race=job.get("race", False))
            job["id"] = "replay"
            job["replay_dir"] = ""
            res = run_job(scratch, job)
            print(json.dumps({k: res.get(k) for k in ("scenario", "violations", "error", "samples")}, indent=1))
            vio = res.get("violations") or []
            if vio:
                print(f"VIOLATION property={job['prop']} replay={a.replay}")
            code = 1 if vio else (2 if res.get("error") else 0)
            return code
        prop = a.prop
        plan = J.plan(prop, a.tier, seed)
        race = plan.get("race", False)
        tb = build(scratch, race=race, cli=plan.get("cli", False), native=plan.get("native", False))
        if plan.get("race_too"):
            tb += build(scratch + "/rb", race=True)
        rdir = os.path.join(V, "replays", prop)
        shutil.rmtree(rdir, ignore_errors=True)
        ctx = {"scratch": scratch, "run_job": lambda job: run_job(scratch, job), "pool": a.jobs, "replay_dir": rdir, "tier": a.tier, "only": a.only, "seed": seed}
        results = J.execute(plan, ctx)
        code = J.finish(prop, a.tier, seed, plan, results, load_known(), classify, time.time() - t0, tb, write=not a.no_evidence)
        return code
    finally:
        if not a.keep:
            shutil.rmtree(scratch, ignore_errors=True)
        else:
            print("scratch kept at", scratch)


if __name__ == "__main__":
    sys.exit(main())
