#!/bin/bash
# mutmatrix.sh [tier] : every seeded change against the check of its own property, on a scratch
# worktree of /repo (VERIF_REPO), so that /repo itself is never touched.
T=${1:-quick}
W=/tmp/mutwt-$$
git -C /repo worktree add --detach $W HEAD -q || exit 3
for d in /verif/seeded/C*/; do
  n=$(basename $d); p=${n:0:3}
  (cd $W && git checkout -q -- . && git apply $d/patch.diff) || { echo "$n: patch does not apply"; continue; }
  out=$(VERIF_REPO=$W python3 /verif/vcheck.py $p --tier $T --no-evidence 2>&1)
  code=$?
  nv=$(echo "$out" | grep -c "^VIOLATION")
  echo "$n: exit=$code violations_printed=$nv $(echo "$out" | grep -E "^(ENGINE|INSTRUMENT|BUILD)" | head -2 | cut -c1-160)"
done
cd /; git -C /repo worktree remove --force $W
