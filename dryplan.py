import sys
sys.path.insert(0, '/verif')
import jobs as J
bad = 0
for tier in ("quick", "thorough"):
    for n in range(1, 21):
        prop = "C%02d" % n
        p = J.plan(prop, tier, 0)
        ctx = {"scratch": "/tmp/dry-scratch", "tier": tier, "prop": prop}
        try:
            js = p["stages"][0](ctx, [])
            js = js + J.rev_order_clones(p, js)
        except Exception as e:
            print(prop, tier, "stage-0 raised", repr(e)); bad += 1; continue
        ids = [j["id"] for j in js]
        dup = sorted({i for i in ids if ids.count(i) > 1})
        print(prop, tier, "stage0 jobs", len(ids), "DUP " + ",".join(dup[:5]) if dup else "")
        bad += len(dup)
print("problems:", bad)
