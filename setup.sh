#!/bin/bash
# setup: build the instrumenter, validate the explorer (reduced vs unreduced exploration on the
# conformance corpus), warm the Go build cache with one instrumented worker build. Offline.
set -e
export GOFLAGS=-mod=mod GOPROXY=off GOSUMDB=off GOTOOLCHAIN=local
V=/verif
mkdir -p $V/bin $V/evidence
(cd $V/engine/vinstr && go build -o $V/bin/vinstr .)
(cd $V/engine/conform && go build -tags verif -o $V/bin/conform . && GOMAXPROCS=1 $V/bin/conform -out $V/bin/conform.json && VS_PURE_BUF=1 GOMAXPROCS=1 $V/bin/conform -out $V/bin/conform-pure.json)
# shim + rewriter vs the real Go runtime on ordinary Go programs (every native outcome must have been explored)
$V/gocorpus.sh 20
S=/dev/shm/verif-setup-$$
rm -rf $S
$V/prep.sh $S
rm -rf $S
echo "setup ok"
