#!/bin/bash
# submatrix.sh <stream-id> <Cxx>... : seeded changes of the given properties against their own check
S=$1; shift
W=/tmp/mutwtS-$S
git -C /repo worktree add --detach $W HEAD -q || exit 3
for p in "$@"; do
for d in /verif/seeded/$p*/; do
  n=$(basename $d)
  (cd $W && git checkout -q -- . && git clean -fdq && git apply $d/patch.diff) || { echo "$n: patch does not apply"; continue; }
  out=$(VERIF_REPO=$W python3 /verif/vcheck.py $p --tier quick --no-evidence 2>&1)
  code=$?
  nv=$(echo "$out" | grep -c "^VIOLATION")
  echo "$n: exit=$code violations_printed=$nv $(echo "$out" | grep -E "^(ENGINE|INSTRUMENT|BUILD)" | head -2 | cut -c1-160)"
done
done
cd /; git -C /repo worktree remove --force $W
