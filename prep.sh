#!/bin/bash
# prep.sh <scratch-dir> [race]  : instrument /repo's working tree + the harness into a scratch
# module and build the worker binary <scratch-dir>/vworker (-tags verif).
set -e
export GOFLAGS=-mod=mod GOPROXY=off GOSUMDB=off GOTOOLCHAIN=local
S=$1; MODE=$2
V=$(dirname $(realpath $0))
R=${VERIF_REPO:-/repo}
[ -x $V/bin/vinstr ] || (cd $V/engine/vinstr && go build -o $V/bin/vinstr .)
mkdir -p $S
cp -r $V/engine/vs $S/vs
FLAGS=""
[ "$MODE" = race ] && FLAGS="-race"
EXTRA=""
if [ -d $R/cmd/scipipe ]; then
  mkdir -p $S/cmdsrc && cp $R/cmd/scipipe/*.go $S/cmdsrc/ && rm -f $S/cmdsrc/*_test.go
  [ -f $V/harness/cmdhook/hook.go ] && cp $V/harness/cmdhook/hook.go $S/cmdsrc/zz_verif_hook.go
fi
$V/bin/vinstr $FLAGS -typecheck-only vs \
  vs=$V/engine/vs=$S/vs \
  github.com/scipipe/scipipe=$R=$S/scipipe \
  github.com/scipipe/scipipe/components=$R/components=$S/scipipe/components \
  vworker=$V/harness=$S/harness
cat > $S/scipipe/go.mod <<EOM
module github.com/scipipe/scipipe

go 1.21

require vs v0.0.0

replace vs => ../vs
EOM
cp $V/harness/go.mod $S/harness/go.mod
(cd $S/harness && go build -tags verif -o $S/vworker .)
