#!/bin/bash
# prep.sh <scratch-dir> [race]  : instrument /repo's working tree + the harness into a scratch
# module and build the worker binary <scratch-dir>/vworker (-tags verif). With VERIF_CLI=1 also
# <scratch-dir>/vc20, the scipipe CLI of that tree (un-instrumented) + harness/cmdhook/hook.go.
set -e
export GOFLAGS=-mod=mod GOPROXY=off GOSUMDB=off GOTOOLCHAIN=local
S=$1; MODE=$2
V=$(dirname $(realpath $0))
R=${VERIF_REPO:-/repo}
[ -x $V/bin/vinstr ] || (cd $V/engine/vinstr && go build -o $V/bin/vinstr .)
mkdir -p $S
cp -r $V/engine/vs $S/vs
FLAGS=""
[ "$MODE" = race ] && FLAGS="-race"
EXTRA=""
if [ -d $R/cmd/scipipe ]; then
  mkdir -p $S/cmdsrc && cp $R/cmd/scipipe/*.go $S/cmdsrc/ && rm -f $S/cmdsrc/*_test.go
  [ -f $V/harness/cmdhook/hook.go ] && cp $V/harness/cmdhook/hook.go $S/cmdsrc/zz_verif_hook.go
  if [ -n "$VERIF_CLI" ]; then
    # <scratch>/vc20: the scipipe CLI (+ the verification hook) built against an UN-instrumented
    # copy of the tree under check (used by C20: audit2html / audit2tex / audit2bash)
    mkdir -p $S/native/components $S/native/cmd/scipipe_verif
    cp $R/go.mod $R/*.go $S/native/ && cp $R/components/*.go $S/native/components/
    rm -f $S/native/*_test.go $S/native/components/*_test.go
    cp $S/cmdsrc/*.go $S/native/cmd/scipipe_verif/
    (cd $S/native && go build -o $S/vc20 ./cmd/scipipe_verif)
  fi
fi
$V/bin/vinstr $FLAGS -typecheck-only vs \
  vs=$V/engine/vs=$S/vs \
  github.com/scipipe/scipipe=$R=$S/scipipe \
  github.com/scipipe/scipipe/components=$R/components=$S/scipipe/components \
  vworker=$V/harness=$S/harness=norace
cat > $S/scipipe/go.mod <<EOM
module github.com/scipipe/scipipe

go 1.21

require vs v0.0.0

replace vs => ../vs
EOM
cp $V/harness/go.mod $S/harness/go.mod
(cd $S/harness && go build -tags verif -o $S/vworker .)
if [ -n "$VERIF_NATIVE" ]; then
  # <scratch>/vnative: the same scenario bodies against the UN-instrumented tree, real runtime
  mkdir -p $S/nat/scipipe/components $S/nat/harness $S/nat/vs $S/natbin
  cp $R/go.mod $R/*.go $S/nat/scipipe/ && cp $R/components/*.go $S/nat/scipipe/components/
  rm -f $S/nat/scipipe/*_test.go $S/nat/scipipe/components/*_test.go
  cp $V/engine/vs/native.go $V/engine/vs/go.mod $S/nat/vs/
  cp $V/harness/*.go $V/harness/go.mod $S/nat/harness/
  (cd $S/nat/harness && go build -o $S/vnative . && ln -sf $S/vnative $S/natbin/vcmd)
fi
