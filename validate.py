#!/usr/bin/env python3
"""Validates MANIFEST.json and every evidence file against the schemas under /root/.vp (run with python3-vt)."""
import json, glob, sys, jsonschema
ok = True
m = json.load(open('/verif/MANIFEST.json'))
jsonschema.validate(m, json.load(open('/root/.vp/MANIFEST.schema.json')))
sch = json.load(open('/root/.vp/EVIDENCE.schema.json'))
for f in sorted(glob.glob('/verif/evidence/C*.json')):
    e = json.load(open(f))
    try:
        jsonschema.validate(e, sch)
    except Exception as ex:
        ok = False
        print("INVALID", f, str(ex)[:300])
        continue
    c = e["coverage"]
    print(f.split('/')[-1], e["tier"], "violations=%s" % e["violations"], "jobs=%s" % c.get("jobs"), "exhaustive=%s" % c.get("exhaustive"), "not_closed=%d" % len(c.get("not_closed") or []), "wall=%ss" % e.get("wall_s"))
print("manifest checks:", len(m["checks"]), "not_applicable:", m["not_applicable"])
sys.exit(0 if ok else 1)
