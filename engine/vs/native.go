//go:build !verif

// Native (pass-through) side of package vs: the subset of the API that scenario code uses,
// on top of the real Go runtime and the real file system. It exists so that the same scenario
// bodies can be run against the UN-instrumented scipipe and their outcome compared with the
// set of outcomes the explorer enumerated (DESIGN.md 2.4, item 2).
package vs

import (
	"fmt"
	"io/ioutil"
	"os"
	"os/exec"
	"sync"
)

var (
	mu     sync.Mutex
	events []string
)

func logLine(kind, e string) {
	mu.Lock()
	defer mu.Unlock()
	events = append(events, kind+e)
	if p := os.Getenv("VW_EVENTS"); p != "" {
		if f, err := os.OpenFile(p, os.O_APPEND|os.O_CREATE|os.O_WRONLY, 0644); err == nil {
			f.WriteString(kind + e + "\n")
			f.Close()
		}
	}
}

func Event(e string) { logLine("E ", e) }
func Note(e string)  { logLine("N ", e) }

type ExitError struct{ Code int }

func (e *ExitError) Error() string { return fmt.Sprintf("exit status %d", e.Code) }

func RealExitError(code int) error {
	script := fmt.Sprintf("exit %d", code)
	if code < 0 {
		script = "kill -KILL $$"
	}
	_, err := exec.Command("bash", "-c", script).CombinedOutput()
	if err == nil {
		err = &ExitError{Code: code}
	}
	return err
}

func FSWriteFile(p string, d []byte, m os.FileMode) error { return ioutil.WriteFile(p, d, m) }
func FSReadFile(p string) ([]byte, error)                 { return ioutil.ReadFile(p) }
func FSStat(p string) (os.FileInfo, error)                { return os.Stat(p) }

func FSMkdirAll(p string, m os.FileMode) error { return os.MkdirAll(p, m) }

func FSRemove(p string) error { return os.Remove(p) }
