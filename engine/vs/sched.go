//go:build verif

// Package vs is the controlled runtime that scipipe is compiled against after the
// source-to-source pass of vinstr: goroutines, channels, select, mutexes, wait groups,
// map iteration order, the clock, os.Exit, file-system calls and command execution are all
// routed through a deterministic cooperative scheduler whose decisions are taken by an
// explorer (Strategy). Exactly one controlled thread runs at any time.
package vs

import (
	"fmt"
	"hash/fnv"
	"reflect"
	"sort"
	"strings"
	"sync"
)

type opKind uint8

const (
	opStart opKind = iota
	opSend
	opRecv
	opSelect
	opLock
	opUnlock // never scheduled (Unlock is not a scheduling point); kept for the co-enabledness table
	opClose
	opSpawn
	opYield
	opExit
	opFS
	opMem
	opWg     // WaitGroup Add / Done
	opWgWait // WaitGroup Wait
	opChild  // waiting for a real child process
	opSleep  // time.Sleep: the timer fires only when nothing else can run
)

var kindNames = []string{"start", "send", "recv", "select", "lock", "unlock", "close", "spawn", "yield", "exit", "fs", "mem", "wg", "wgwait", "child", "sleep"}

type chanI interface {
	label() string
	canSend(self *Thread) bool
	canRecv(self *Thread) bool
	stateString(s *Sched) string
	slotClock() ([]int, []int)
	npending(self *Thread, send bool) int
	strictlyReady() bool
	strictlySendable() bool
	prepare(self *Thread, op *Op, send bool)
	Cap() int
	isClosed() bool
}

// Op is the pending visible operation of a thread.
type Op struct {
	kind      opKind
	ch        chanI
	mu        *Mutex
	wg        *WaitGroup
	cases     []chanI       // select: channel of every case
	dirs      []bool        // select: true = send case
	svals     []interface{} // select: value of every send case
	hasDef    bool          // select with default
	completed bool    // partner already performed the transfer for us
	val       interface{}
	ok        bool
	selIdx    int
	since     int // arrival order among waiters (only used to order the alternatives of a partner choice)
	obj       string
	joinClk   []int
	joinSync  []int
	fs        []fsAcc
	memW      bool
	child     *childProc
	desc      string
	prepared  bool
	partner   *Thread // rendezvous partner served by this step
	letIn     *Thread // sender blocked on a full buffer that this receive lets in
	selCase   int     // select: chosen case (-1 = default / none)
	preClk    []int   // clock of what causally precedes the step (message being received)
}

func (op *Op) isSendCase(i int) bool { return i < len(op.dirs) && op.dirs[i] }

// Thread is one controlled goroutine.
type Thread struct {
	id      string
	wake    chan struct{}
	pending *Op
	done    bool
	hist    uint64
	nops    int
	nspawn  int
	nsite   int // thread-local ordinal of map-range sites
	s       *Sched
}

func (t *Thread) ID() string { return t.id }

type killSentinel struct{}

// Choice is one recorded decision of an execution, in index form (replayable by the
// Prefix strategy whatever strategy produced it).
type Choice struct {
	Kind   string `json:"k"` // "sched" or the name of a branch (select, which-sender, ...)
	N      int    `json:"n"`
	Chosen int    `json:"c"`
	Thread string `json:"t,omitempty"` // sched: id of the chosen thread
	Self   bool   `json:"-"`           // sched: the running thread was enabled (choosing != 0 is a preemption / delay)
	Key    uint64 `json:"-"`
}

// Strategy takes every decision of an execution.
type Strategy interface {
	// PickThread chooses among the enabled threads (running thread first, then ascending id).
	PickThread(s *Sched, en []*Thread) *Thread
	// PickAlt chooses among n >= 2 alternatives of a non-thread choice.
	PickAlt(s *Sched, n int, what string) int
}

// Sched is the state of one execution.
type Sched struct {
	threads  []*Thread
	cur      *Thread
	strat    Strategy
	Choices  []Choice
	killed   bool
	Outcome  string // "" (main returned), "deadlock", "exit:N", "panic:...", "horizon", "sleepblocked", "pruned"
	Detail   string
	wg       sync.WaitGroup
	finished chan struct{}
	objs     []interface{ keyString(*Sched) string }
	arrival  int
	labels   map[uintptr]string
	atom   map[uintptr]*Mutex // one mutex per variable accessed through sync/atomic
	keep     []interface{}
	Events   []string
	Notes    []string
	Steps    int
	MaxSteps int
	mainDone bool
	Deadlocked []string // pending ops of the threads alive at a deadlock

	// DPOR bookkeeping (also used by the race monitor)
	depth      int
	clocks     map[*Thread][]int
	tidx       map[*Thread]int
	steps      []stepInfo
	vobjs      map[string]*vobj
	curStepClk []int
	curRaceClk []int
	sleep      map[string]bool
	fsHist     []fsRec
	curAccs    []access
	picking    bool

	// race monitor
	memHist    map[string][]memLast
	syncClk    map[*Thread][]int
	liveChildren, maxLiveChildren int
	syncObjClk map[string][]int
	curSyncClk []int

	// environment
	now      int64
	tmpCount int
	mapSites []MapSite
	children []*childProc
	Ctx      interface{} // harness data attached to the execution
}

// Cur is the execution in progress in this OS process (one at a time).
var Cur *Sched

// Options of the runtime (set by the harness before Run).
var (
	EventsDependent = true  // Event() is a visible, mutually dependent operation
	MaxSteps        = 20000 // horizon per execution
)

func h64(parts ...string) uint64 {
	h := fnv.New64a()
	for _, p := range parts {
		h.Write([]byte(p))
		h.Write([]byte{0})
	}
	return h.Sum64()
}

func (t *Thread) log(parts ...string) {
	if HistHash {
		t.hist = h64(fmt.Sprintf("%x", t.hist), strings.Join(parts, "|"))
	}
	t.nops++
}

// HistHash enables per-thread history hashing (needed only for state-hash pruning).
var HistHash bool

// Run executes body as thread "0" under the given strategy and returns the finished execution.
func Run(strat Strategy, body func()) *Sched {
	s := &Sched{strat: strat, finished: make(chan struct{}), labels: map[uintptr]string{}, MaxSteps: MaxSteps}
	s.clocks = map[*Thread][]int{}
	s.tidx = map[*Thread]int{}
	s.vobjs = map[string]*vobj{}
	s.memHist = map[string][]memLast{}
	s.syncClk = map[*Thread][]int{}
	s.syncObjClk = map[string][]int{}
	s.sleep = map[string]bool{}
	Cur = s
	t0 := &Thread{id: "0", wake: make(chan struct{}, 1), s: s}
	t0.pending = &Op{kind: opStart}
	s.threads = append(s.threads, t0)
	s.wg.Add(1)
	go s.threadMain(t0, func() { body(); s.mainDone = true })
	s.cur = t0
	t0.wake <- struct{}{}
	<-s.finished
	s.wg.Wait()
	s.reapChildren()
	Cur = nil
	return s
}

func (s *Sched) threadMain(t *Thread, f func()) {
	defer s.wg.Done()
	defer func() {
		if r := recover(); r != nil {
			if _, ok := r.(killSentinel); ok {
				return
			}
			if !s.killed {
				s.Outcome = fmt.Sprintf("panic:%v", r)
				s.kill()
			}
		}
	}()
	<-t.wake
	if s.killed {
		return
	}
	f()
	if s.mainDone && t.id == "0" {
		// main returned: the process exits, which disables every other thread: a visible,
		// globally dependent step, followed by the race check of everybody's pending op
		t.pending = &Op{kind: opExit}
		s.reschedule(t, false)
		t.done = true
		t.pending = nil
		s.finalRaces()
		s.kill()
		return
	}
	// thread exit
	t.done = true
	t.pending = nil
	s.reschedule(t, true)
}

func (s *Sched) kill() {
	if s.killed {
		return
	}
	s.killed = true
	for _, t := range s.threads {
		select {
		case t.wake <- struct{}{}:
		default:
		}
	}
	close(s.finished)
}

// abort ends the execution with the given outcome from inside a strategy or operation.
func (s *Sched) abort(outcome string) {
	s.Outcome = outcome
	s.kill()
	panic(killSentinel{})
}

func (s *Sched) enabled(t *Thread) bool {
	if t.done || t.pending == nil {
		return false
	}
	op := t.pending
	if op.completed {
		return true
	}
	switch op.kind {
	case opStart, opUnlock, opClose, opSpawn, opYield, opExit, opFS, opMem, opWg:
		return true
	case opSend:
		return op.ch.canSend(t)
	case opRecv:
		return op.ch.canRecv(t)
	case opSelect:
		if op.hasDef {
			return true
		}
		for i, c := range op.cases {
			if c == nil || isNilChan(c) {
				continue
			}
			if op.isSendCase(i) {
				if c.canSend(t) {
					return true
				}
			} else if c.canRecv(t) {
				return true
			}
		}
		return false
	case opLock:
		return op.mu.holder == nil
	case opWgWait:
		return op.wg.n <= 0
	case opChild:
		return op.child.exited()
	case opSleep:
		// waiting is made visible: a sleeper (polling / retry loop) runs only when no other
		// thread can, otherwise the execution space would be cyclic
		for _, o := range s.threads {
			if o != t && !o.done && o.pending != nil && o.pending.kind != opSleep && s.enabled(o) {
				return false
			}
		}
		return true
	}
	return false
}

func isNilChan(c chanI) bool {
	if c == nil {
		return true
	}
	v := reflect.ValueOf(c)
	return v.Kind() == reflect.Ptr && v.IsNil()
}

// reschedule: t has set its pending op (or exited); pick who runs next.
func (s *Sched) reschedule(t *Thread, exiting bool) {
	if s.killed {
		if exiting {
			return
		}
		panic(killSentinel{})
	}
	s.Steps++
	if s.Steps > s.MaxSteps {
		s.Outcome = "horizon"
		s.kill()
		if exiting {
			return
		}
		panic(killSentinel{})
	}
	var en []*Thread
	for {
		en = en[:0]
		selfEnabled := !exiting && s.enabled(t)
		if selfEnabled {
			en = append(en, t)
		}
		others := []*Thread{}
		for _, o := range s.threads {
			if o != t && s.enabled(o) {
				others = append(others, o)
			}
		}
		sort.Slice(others, func(i, j int) bool { return others[i].id < others[j].id })
		en = append(en, others...)
		if len(en) > 0 {
			break
		}
		// nobody is enabled: if real children are running, wait for the OS (real-exec mode)
		if s.waitChildren() {
			continue
		}
		alive := false
		for _, o := range s.threads {
			if !o.done {
				alive = true
				s.Deadlocked = append(s.Deadlocked, o.id+":"+s.opString(o.pending))
			}
		}
		if alive {
			s.Outcome = "deadlock"
			s.finalRaces()
		}
		s.kill()
		if exiting {
			return
		}
		panic(killSentinel{})
	}
	next := s.strat.PickThread(s, en)
	s.cur = next
	if next == t {
		return
	}
	next.wake <- struct{}{}
	if exiting {
		return
	}
	<-t.wake
	if s.killed {
		panic(killSentinel{})
	}
}

func (s *Sched) opString(op *Op) string {
	if op == nil {
		return "-"
	}
	p := kindNames[op.kind]
	if op.desc != "" {
		p += "(" + op.desc + ")"
	}
	if op.ch != nil && !isNilChan(op.ch) {
		p += " " + op.ch.label()
	}
	if op.mu != nil {
		p += " " + op.mu.lbl
	}
	for _, c := range op.cases {
		if c != nil && !isNilChan(c) {
			p += "," + c.label()
		} else {
			p += ",nil"
		}
	}
	return p
}

func (s *Sched) me() *Thread { return s.cur }

// Me returns the id of the running controlled thread.
func Me() string { return Cur.me().id }

// ---------------------------------------------------------------- canonical state key
// (used only by the unreduced reference explorer with pruning)

func (s *Sched) stateKey() uint64 {
	parts := []string{}
	ths := []string{}
	for _, t := range s.threads {
		p := "-"
		if t.pending != nil {
			p = s.opString(t.pending)
			if t.pending.completed {
				p += "!"
			}
		}
		ths = append(ths, fmt.Sprintf("%s:%v:%x:%s", t.id, t.done, t.hist, p))
	}
	sort.Strings(ths)
	parts = append(parts, ths...)
	obs := []string{}
	for _, o := range s.objs {
		obs = append(obs, o.keyString(s))
	}
	sort.Strings(obs)
	parts = append(parts, obs...)
	parts = append(parts, s.Events...)
	return h64(parts...)
}

func (s *Sched) newLabel(prefix string) string {
	t := s.me()
	t.nspawn++
	return fmt.Sprintf("%s%s/%d", prefix, t.id, t.nspawn)
}

func (s *Sched) valLabel(v interface{}) string {
	if v == nil {
		return "nil"
	}
	rv := reflect.ValueOf(v)
	switch rv.Kind() {
	case reflect.Ptr, reflect.Map, reflect.Chan, reflect.Func, reflect.UnsafePointer:
		if rv.IsNil() {
			return "nil"
		}
		key := rv.Pointer()
		if l, ok := s.labels[key]; ok {
			return l
		}
		t := s.me()
		l := fmt.Sprintf("v%s#%d", t.id, t.nops)
		s.labels[key] = l
		s.keep = append(s.keep, v) // no address reuse within an execution: labels are keyed by address
		return l
	case reflect.Struct:
		if rv.NumField() == 0 {
			return "{}"
		}
		return fmt.Sprint(v)
	default:
		return fmt.Sprint(v)
	}
}

// ---------------------------------------------------------------- Go / Yield / Event / Note

// Go starts f as a new controlled thread; the child id is parent id + spawn ordinal.
func Go(f func()) {
	s := Cur
	if s == nil {
		go f()
		return
	}
	t := s.me()
	t.pending = &Op{kind: opSpawn}
	s.reschedule(t, false)
	t.nspawn++
	c := &Thread{id: fmt.Sprintf("%s.%d", t.id, t.nspawn), wake: make(chan struct{}, 1), s: s}
	c.pending = &Op{kind: opStart}
	s.threads = append(s.threads, c)
	s.clocks[c] = append([]int{}, s.clockOf(t)...)
	s.syncClk[c] = append([]int{}, s.syncClockOf(t)...)
	t.log("spawn", c.id)
	s.wg.Add(1)
	go s.threadMain(c, f)
}

// Yield is a visible operation without effect (a pure scheduling point).
func Yield(tag string) {
	s := Cur
	t := s.me()
	t.pending = &Op{kind: opYield, desc: tag}
	s.reschedule(t, false)
	t.log("yield", tag)
}

// Note records a thread-local observation; it is not a visible operation.
func Note(e string) {
	s := Cur
	t := s.me()
	s.Notes = append(s.Notes, t.id+":"+e)
	if HistHash {
		t.hist = h64(fmt.Sprintf("%x", t.hist), "note|"+e)
	}
}

// Event records a monitored event. With EventsDependent it is a visible operation that
// writes the global EVENTS object, so every order of events that is not forced by
// happens-before is explored.
func Event(e string) {
	s := Cur
	t := s.me()
	if !EventsDependent {
		s.Events = append(s.Events, t.id+":"+e)
		return
	}
	t.pending = &Op{kind: opYield, obj: "EVENTS", desc: e}
	s.reschedule(t, false)
	s.Events = append(s.Events, t.id+":"+e)
	t.log("event", e)
}

// EventList returns the events of the execution without the thread-id prefix.
func (s *Sched) EventList() []string {
	ev := make([]string, len(s.Events))
	for i, e := range s.Events {
		ev[i] = e[strings.Index(e, ":")+1:]
	}
	return ev
}

// NoteList returns the notes without the thread-id prefix.
func (s *Sched) NoteList() []string {
	ev := make([]string, len(s.Notes))
	for i, e := range s.Notes {
		ev[i] = e[strings.Index(e, ":")+1:]
	}
	return ev
}

// prepareOp takes the branch choices of the step t is about to perform (ready select case,
// which blocked partner) before the step's clock and races are computed.
func (s *Sched) prepareOp(t *Thread, op *Op) {
	if op.prepared || op.completed {
		return
	}
	op.prepared = true
	switch op.kind {
	case opSend:
		if op.ch != nil && !isNilChan(op.ch) {
			op.ch.prepare(t, op, true)
		}
	case opRecv:
		if op.ch != nil && !isNilChan(op.ch) {
			op.ch.prepare(t, op, false)
		}
	case opSelect:
		if op.hasDef && !PureBuf {
			for _, c := range op.cases {
				if c != nil && !isNilChan(c) && c.Cap() > 0 {
					NeedPure = true
					s.abort("restart:pure-buffer-model")
				}
			}
		}
		if op.hasDef {
			for _, c := range op.cases {
				if c != nil && !isNilChan(c) && c.Cap() == 0 {
					// whether a partner has ARRIVED at an unbuffered channel is not a visible
					// operation of this model; a non-blocking poll of it cannot be explored
					// soundly, so the engine refuses instead of guessing (never a VIOLATION)
					// (the unreduced explorer branches over both answers whenever the partner is
					// pending at its operation: it may or may not have arrived yet)
					if Reduced {
						s.abort("unsupported: select with default over an unbuffered channel")
					}
				}
			}
		}
		if !op.hasDef {
			for i, c := range op.cases {
				if op.isSendCase(i) {
					// validated only for the non-blocking form (try-send on a buffered channel);
					// the reduced explorer disagreed with plain enumeration on a blocking select
					// that mixes send and receive cases, so the REDUCED explorer refuses it (the
					// caller falls back to the unreduced, delay-bounded enumeration, whose
					// verdicts do not rest on the dependency table), in the pure buffer model
					if Reduced {
						s.abort("unsupported: blocking select with a send case")
					}
					if !PureBuf && c != nil && !isNilChan(c) && c.Cap() > 0 {
						NeedPure = true
						s.abort("restart:pure-buffer-model")
					}
				}
			}
		}
		ready := []int{}
		strict := false
		for i, c := range op.cases {
			if c == nil || isNilChan(c) {
				continue
			}
			if op.isSendCase(i) {
				if c.canSend(t) {
					ready = append(ready, i)
					if c.strictlySendable() {
						strict = true
					}
				}
			} else if c.canRecv(t) {
				ready = append(ready, i)
				if c.strictlyReady() {
					strict = true
				}
			}
		}
		op.selCase = -1
		if DebugSel {
			pend := []string{}
			for _, o := range s.threads {
				if o.pending != nil {
					pend = append(pend, o.id+":"+s.opString(o.pending)+fmt.Sprint(o.pending.completed, o.done))
				}
			}
			fmt.Printf("SELECT thr=%s hasDef=%v ready=%v strict=%v pend=%v\n", t.id, op.hasDef, ready, strict, pend)
		}
		if len(ready) == 0 {
			return
		}
		k := 0
		if op.hasDef && !strict {
			// every ready case depends on a partner that is pending at its op: in Go the partner
			// may not have arrived yet, so default is a possible outcome too
			k = s.pickAlt(len(ready)+1, "select-or-default")
			if k == len(ready) {
				return
			}
		} else if len(ready) > 1 {
			k = s.pickAlt(len(ready), "select")
		}
		op.selCase = ready[k]
		op.cases[op.selCase].prepare(t, op, op.isSendCase(op.selCase))
	}
}

var DebugSel bool

// pickAlt is a non-thread choice with n alternatives.
func (s *Sched) pickAlt(n int, what string) int {
	if n <= 1 {
		return 0
	}
	return s.strat.PickAlt(s, n, what)
}

// Choose lets harness code (fault injection etc.) branch over n alternatives.
func Choose(n int, what string) int { return Cur.pickAlt(n, what) }

// Recover is wrapped around every recover() of the code under test: the panic with which the
// controlled runtime unwinds a killed thread is not the program's to catch.
func Recover(r interface{}) interface{} {
	if _, ok := r.(killSentinel); ok {
		panic(r)
	}
	return r
}
