//go:build verif

package vs

import (
	"fmt"
	"os"
	"sort"
	"time"
)

// ---------------------------------------------------------------- map iteration order

// MapSite identifies one execution of a `for range m` statement over a map with >= 2 keys:
// (thread id, thread-local ordinal) — independent of the schedule.
type MapSite struct {
	ID       string `json:"id"`
	N        int    `json:"n"`
	Variants int    `json:"variants"`
}

// ForceOrder: site id -> variant (0 = sorted order). Variants for n <= 3 keys are all
// permutations in lexicographic order, for larger maps the n rotations followed by reverse.
var ForceOrder = map[string]int{}

// ForceAll, when >= 0, applies the variant (modulo the number of variants) to every site.
var ForceAll = -1

func nVariants(n int) int {
	switch {
	case n < 2:
		return 1
	case n == 2:
		return 2
	case n == 3:
		return 6
	}
	return n + 1
}

func permute(n, v int) []int {
	idx := make([]int, n)
	for i := range idx {
		idx[i] = i
	}
	if n == 2 {
		return [][]int{{0, 1}, {1, 0}}[v%2]
	}
	if n == 3 {
		return [][]int{{0, 1, 2}, {0, 2, 1}, {1, 0, 2}, {1, 2, 0}, {2, 0, 1}, {2, 1, 0}}[v%6]
	}
	if v >= n { // reverse
		for i := range idx {
			idx[i] = n - 1 - i
		}
		return idx
	}
	for i := range idx {
		idx[i] = (i + v) % n
	}
	return idx
}

type MapIt[K comparable, V any] struct {
	m    map[K]V
	keys []K
	i    int
	k    K
	v    V
}

// MapIter iterates a map in an order owned by the explorer: sorted keys by default.
// Entries deleted during the iteration are skipped, entries added are not visited (Go
// permits both).
func MapIter[K comparable, V any](m map[K]V) *MapIt[K, V] {
	it := &MapIt[K, V]{m: m}
	for k := range m {
		it.keys = append(it.keys, k)
	}
	sort.Slice(it.keys, func(a, b int) bool { return fmt.Sprint(it.keys[a]) < fmt.Sprint(it.keys[b]) })
	if s := Cur; s != nil && len(it.keys) >= 2 && inHook == 0 {
		t := s.me()
		t.nsite++
		id := fmt.Sprintf("%s#%d", t.id, t.nsite)
		nv := nVariants(len(it.keys))
		s.mapSites = append(s.mapSites, MapSite{ID: id, N: len(it.keys), Variants: nv})
		v, ok := ForceOrder[id]
		if !ok && ForceAll >= 0 {
			v, ok = ForceAll%nv, true
		}
		if os.Getenv("VS_DEBUG_PREFIX") != "" && t.id == "0" {
			fmt.Fprintf(os.Stderr, "MAPSITE %s keys=%v force=%v/%v\n", id, it.keys, v, ok)
		}
		if ok && v > 0 && v < nv {
			p := permute(len(it.keys), v)
			nk := make([]K, len(it.keys))
			for i, j := range p {
				nk[i] = it.keys[j]
			}
			it.keys = nk
		}
	}
	return it
}

func (it *MapIt[K, V]) Next() bool {
	for it.i < len(it.keys) {
		k := it.keys[it.i]
		it.i++
		if v, ok := it.m[k]; ok {
			it.k, it.v = k, v
			return true
		}
	}
	return false
}
func (it *MapIt[K, V]) K() K { return it.k }
func (it *MapIt[K, V]) V() V { return it.v }

// MapSites returns the map-range sites (>= 2 keys) this execution went through.
func (s *Sched) MapSites() []MapSite { return s.mapSites }

// ---------------------------------------------------------------- clock

var epoch = time.Date(2020, 1, 1, 0, 0, 0, 0, time.UTC)

// ClockStep: how far the logical clock advances per reading (default 1 ms; scenarios that want
// tasks to straddle second boundaries use a larger step).
var ClockStep = time.Millisecond

// Now is a logical clock: strictly increasing within an execution, ClockStep per reading.
func Now() time.Time {
	s := Cur
	if s == nil {
		return time.Now()
	}
	s.now++
	return epoch.Add(time.Duration(s.now) * ClockStep)
}

// After: how long anything takes is not controlled, so a timer is an environment event that may
// land at any point after it was armed: a thread of its own delivers the tick (buffered, as
// time.After does), and the scheduler decides when.
func After(d time.Duration) *Chan[time.Time] {
	ch := NewChan[time.Time](1)
	if Cur == nil {
		panic("vs.After outside a controlled execution")
	}
	Go(func() { ch.Send(Now()) })
	return ch
}

// Sleep yields and advances the logical clock.
func Sleep(d time.Duration) {
	s := Cur
	if s == nil {
		time.Sleep(d)
		return
	}
	t := s.me()
	t.pending = &Op{kind: opSleep, obj: "TIMER", desc: d.String()}
	s.reschedule(t, false)
	t.log("sleep")
	s.now += int64(d / time.Millisecond)
}

// ---------------------------------------------------------------- process exit

// Exit ends the execution with an exit status (replacement of os.Exit).
func Exit(code int) {
	s := Cur
	if s == nil {
		os.Exit(code)
	}
	t := s.me()
	t.pending = &Op{kind: opExit}
	s.reschedule(t, false)
	s.finalRaces()
	s.Outcome = fmt.Sprintf("exit:%d", code)
	s.kill()
	panic(killSentinel{})
}

// MapIterK / MapIterV / MapIterKV additionally return zero values that declare the loop
// variables once per loop (Go <= 1.21 semantics of the repository's go.mod).
func MapIterK[K comparable, V any](m map[K]V) (*MapIt[K, V], K) {
	var k K
	return MapIter(m), k
}
func MapIterV[K comparable, V any](m map[K]V) (*MapIt[K, V], V) {
	var v V
	return MapIter(m), v
}
func MapIterKV[K comparable, V any](m map[K]V) (*MapIt[K, V], K, V) {
	var k K
	var v V
	return MapIter(m), k, v
}

// ChanIt implements `for v := range ch`.
type ChanIt[T any] struct {
	c *Chan[T]
	v T
}

func ChanIter[T any](c *Chan[T]) *ChanIt[T] { return &ChanIt[T]{c: c} }
func ChanIterV[T any](c *Chan[T]) (*ChanIt[T], T) {
	var v T
	return &ChanIt[T]{c: c}, v
}
func (it *ChanIt[T]) Next() bool {
	v, ok := it.c.Recv2()
	it.v = v
	return ok
}
func (it *ChanIt[T]) V() T { return it.v }
