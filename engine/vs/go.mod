module vs

go 1.21
