//go:build verif

package vs

import (
	"fmt"
	"sort"
	"strings"
)

// Chan is the controlled replacement of a Go channel (buffered FIFO; capacity 0 =
// rendezvous completed atomically with a pending partner; nil receiver = blocks forever).
type Chan[T any] struct {
	lbl       string
	nsend     int
	msgClk    [][]int // DPOR clocks of buffered messages (parallel to buf)
	msgSync   [][]int // sync-only clocks of buffered messages
	slotClk   [][]int // clocks published by the receives, consumed by later sends (capacity edge)
	slotSync  [][]int
	closeSync []int
	closeClk  []int
	buf       []T
	capa      int
	closed    bool
	s         *Sched
}

func NewChan[T any](n int) *Chan[T] {
	s := Cur
	c := &Chan[T]{capa: n, s: s, lbl: s.newLabel("c")}
	s.objs = append(s.objs, c)
	return c
}

func (c *Chan[T]) label() string { return c.lbl }

func (c *Chan[T]) isClosed() bool { return c != nil && c.closed }

func (c *Chan[T]) npending(self *Thread, send bool) int {
	if c == nil {
		return 0
	}
	return len(c.allPending(self, send))
}

// slotClock: the clocks a send must inherit because a receive freed its slot.
// Go memory model: the k-th receive is synchronized before the (k+C)-th send completes.
func (c *Chan[T]) slotClock() ([]int, []int) {
	if c == nil {
		return nil, nil
	}
	c.nsend++
	k := c.nsend - c.capa // index (1-based) of the receive this send depends on
	if c.capa == 0 || k < 1 || k > len(c.slotClk) {
		return nil, nil
	}
	var ss []int
	if k-1 < len(c.slotSync) {
		ss = c.slotSync[k-1]
	}
	return c.slotClk[k-1], ss
}

func (c *Chan[T]) keyString(s *Sched) string { return c.stateString(s) }

func (c *Chan[T]) stateString(s *Sched) string {
	vs := []string{}
	for _, v := range c.buf {
		vs = append(vs, s.valLabel(any(v)))
	}
	return fmt.Sprintf("%s[%s]%v", c.lbl, strings.Join(vs, ","), c.closed)
}

// allPending returns every thread blocked on a matching op of channel c, in arrival order.
func (c *Chan[T]) allPending(self *Thread, send bool) []*Thread {
	r := []*Thread{}
	if c.capa > 0 && PureBuf {
		// buffered channel: a send always goes through the buffer and a receive always takes from
		// it, each as a step of its own thread. (Handing a value directly to a thread that is
		// pending at its receive - or letting a pending sender in as part of a receive - would
		// merge two steps into one and hide the states in between, e.g. from a non-blocking send
		// of a third thread; "pending" in this model does not mean "parked" in the Go runtime.)
		return r
	}
	for _, t := range c.s.threads {
		if t == self || t.done || t.pending == nil || t.pending.completed {
			continue
		}
		op := t.pending
		if op.kind == opSelect && op.hasDef {
			continue // a select with default never parks: it is nobody's rendezvous partner
		}
		if send {
			m := op.kind == opSend && op.ch == chanI(c)
			if op.kind == opSelect {
				for i, cc := range op.cases {
					if cc == chanI(c) && op.isSendCase(i) {
						m = true
					}
				}
			}
			if m {
				r = append(r, t)
			}
		} else {
			m := op.kind == opRecv && op.ch == chanI(c)
			if op.kind == opSelect {
				for i, cc := range op.cases {
					if cc == chanI(c) && !op.isSendCase(i) {
						m = true
					}
				}
			}
			if m {
				r = append(r, t)
			}
		}
	}
	sort.Slice(r, func(i, j int) bool { return r[i].pending.since < r[j].pending.since })
	return r
}

// pendingRecv / pendingSend: is there a blocked partner at all (enabledness queries).
func (c *Chan[T]) pendingRecv(self *Thread) *Thread {
	ps := c.allPending(self, false)
	if len(ps) == 0 {
		return nil
	}
	return ps[0]
}

func (c *Chan[T]) pendingSend(self *Thread) *Thread {
	ps := c.allPending(self, true)
	if len(ps) == 0 {
		return nil
	}
	return ps[0]
}

// prepare is called by the scheduler when an op on c is picked, BEFORE its clock and races
// are computed: it takes the branch choices of the step (which blocked partner is served) and
// records what causally precedes it, so that the joint transition is judged as a whole.
func (c *Chan[T]) prepare(self *Thread, op *Op, send bool) {
	if c == nil {
		return
	}
	s := c.s
	if send {
		if c.closed {
			return
		}
		if len(c.buf) == 0 {
			if ps := c.allPending(self, false); len(ps) > 0 {
				op.partner = ps[s.pickAlt(len(ps), "which-receiver")]
			}
		}
		return
	}
	if len(c.buf) > 0 {
		if len(c.msgClk) > 0 {
			op.preClk = c.msgClk[0]
		}
		if len(c.buf) == c.capa {
			// a sender blocked on the full buffer is let in by this receive
			if ps := c.allPending(self, true); len(ps) > 0 {
				op.letIn = ps[s.pickAlt(len(ps), "which-sender")]
			}
		}
		return
	}
	if c.capa == 0 {
		if ps := c.allPending(self, true); len(ps) > 0 {
			op.partner = ps[s.pickAlt(len(ps), "which-sender")]
			return
		}
	}
	if c.closed {
		op.preClk = c.closeClk // the close is what enables a receive on a drained channel
	}
}

func (c *Chan[T]) canSend(self *Thread) bool {
	if c == nil {
		return false
	}
	if c.closed || len(c.buf) < c.capa {
		return true
	}
	return c.capa == 0 && c.pendingRecv(self) != nil
}

func (c *Chan[T]) canRecv(self *Thread) bool {
	if c == nil {
		return false
	}
	if len(c.buf) > 0 || c.closed {
		return true
	}
	// only a sender that is really blocked (unbuffered channel) is a rendezvous partner; a
	// pending send into a buffer with room is an enabled step of its own
	return c.capa == 0 && c.pendingSend(self) != nil
}

// strictlyReady: a receive would succeed without the help of a pending partner.
func (c *Chan[T]) strictlyReady() bool {
	return c != nil && (len(c.buf) > 0 || c.closed)
}

func (c *Chan[T]) Send(v T) {
	s := Cur
	t := s.me()
	s.arrival++
	op := &Op{kind: opSend, ch: c, val: v, since: s.arrival}
	if c == nil {
		op.ch = nil
	}
	t.pending = op
	s.reschedule(t, false)
	if op.completed {
		t.log("send", c.label())
		return
	}
	lbl := ""
	if HistHash {
		lbl = s.valLabel(any(v))
	}
	c.performSend(t, v, op)
	t.log("send", c.label(), lbl)
}

// performSend: the effect of a scheduled send of v by t (plain send or select send case).
func (c *Chan[T]) performSend(t *Thread, v T, op *Op) {
	if c == nil {
		panic("vs: send on nil chan scheduled")
	}
	s := c.s
	if c.closed {
		panic("send on closed channel")
	}
	if r := op.partner; r != nil {
		c.deliver(r, v, true)
		r.pending.joinClk = s.curStepClk
		r.pending.joinSync = s.curSyncClk
	} else {
		if len(c.buf) >= c.capa {
			panic("vs: send scheduled but not enabled")
		}
		c.buf = append(c.buf, v)
		c.msgClk = append(c.msgClk, s.curStepClk)
		c.msgSync = append(c.msgSync, s.curSyncClk)
	}
}

// deliver completes the pending recv/select of r with value v.
func (c *Chan[T]) deliver(r *Thread, v T, ok bool) {
	op := r.pending
	op.completed = true
	op.val = v
	op.ok = ok
	if op.kind == opSelect {
		for i, cc := range op.cases {
			if cc == chanI(c) && !op.isSendCase(i) {
				op.selIdx = i
				break
			}
		}
	}
}

// takeFromSender: the value a pending sender (plain send or select send case) offers on c;
// marks its op completed.
func (c *Chan[T]) takeFromSender(snd *Thread) T {
	var v T
	op := snd.pending
	var raw interface{} = op.val
	if op.kind == opSelect {
		for i, cc := range op.cases {
			if cc == chanI(c) && op.isSendCase(i) {
				op.selIdx = i
				raw = op.svals[i]
				break
			}
		}
	}
	if raw != nil {
		v = raw.(T)
	}
	op.completed = true
	return v
}

func (c *Chan[T]) strictlySendable() bool {
	return c != nil && (c.closed || len(c.buf) < c.capa)
}

func (c *Chan[T]) Recv2() (T, bool) {
	s := Cur
	t := s.me()
	s.arrival++
	op := &Op{kind: opRecv, ch: c, since: s.arrival}
	if c == nil {
		op.ch = nil
	}
	t.pending = op
	s.reschedule(t, false)
	v, ok := c.finishRecv(t, op)
	if HistHash {
		t.log("recv", c.label(), s.valLabel(any(v)), fmt.Sprint(ok))
	} else {
		t.nops++
	}
	return v, ok
}

func (c *Chan[T]) finishRecv(t *Thread, op *Op) (T, bool) {
	var zero T
	if op.completed {
		if op.val == nil {
			return zero, op.ok
		}
		return op.val.(T), op.ok
	}
	if c == nil {
		panic("vs: recv on nil chan scheduled")
	}
	s := c.s
	if len(c.buf) > 0 {
		v := c.buf[0]
		c.buf = c.buf[1:]
		if len(c.msgClk) > 0 {
			s.clocks[t] = joinClk(s.clockOf(t), c.msgClk[0])
			c.msgClk = c.msgClk[1:]
		}
		if len(c.msgSync) > 0 {
			if RaceMode {
				s.syncClk[t] = joinClk(s.syncClockOf(t), c.msgSync[0])
			}
			c.msgSync = c.msgSync[1:]
		}
		// a sender blocked on a full buffer can now complete
		if snd := op.letIn; snd != nil {
			c.buf = append(c.buf, c.takeFromSender(snd))
			c.msgClk = append(c.msgClk, s.clocks[snd])
			c.msgSync = append(c.msgSync, s.syncClk[snd])
			snd.pending.joinClk = s.curStepClk
			snd.pending.joinSync = s.curSyncClk
			c.nsend++ // the completed send never passes through slotClock()
		}
		c.slotClk = append(c.slotClk, s.curStepClk)
		c.slotSync = append(c.slotSync, s.curSyncClk)
		return v, true
	}
	if snd := op.partner; snd != nil {
		v := c.takeFromSender(snd)
		snd.pending.joinClk = s.curStepClk
		snd.pending.joinSync = s.curSyncClk
		s.clocks[t] = joinClk(s.clockOf(t), s.clocks[snd])
		if RaceMode {
			s.syncClk[t] = joinClk(s.syncClockOf(t), s.syncClk[snd])
		}
		return v, true
	}
	if c.closed {
		if RaceMode {
			s.syncClk[t] = joinClk(s.syncClockOf(t), c.closeSync)
		}
		return zero, false
	}
	panic("vs: recv scheduled but not enabled")
}

func (c *Chan[T]) Recv() T { v, _ := c.Recv2(); return v }

func (c *Chan[T]) Close() {
	s := Cur
	t := s.me()
	if c == nil {
		panic("close of nil channel")
	}
	t.pending = &Op{kind: opClose, ch: c}
	s.reschedule(t, false)
	if c.closed {
		panic("close of closed channel")
	}
	c.closed = true
	c.closeSync = s.curSyncClk
	c.closeClk = s.curStepClk
	t.log("close", c.label())
}

// Len is a visible operation: it observes the channel state.
func (c *Chan[T]) Len() int {
	if c == nil {
		return 0
	}
	s := Cur
	t := s.me()
	if c.capa > 0 && !PureBuf {
		NeedPure = true
		s.abort("restart:pure-buffer-model")
	}
	t.pending = &Op{kind: opClose, ch: c, desc: "len"} // declared like close: conflicts with every op of c
	s.reschedule(t, false)
	t.log("len", c.label(), fmt.Sprint(len(c.buf)))
	return len(c.buf)
}

func (c *Chan[T]) Cap() int {
	if c == nil {
		return 0
	}
	return c.capa
}

// ---------------------------------------------------------------- Select (receive cases)

type RecvCase[T any] struct {
	c  *Chan[T]
	V  T
	Ok bool
}

func Case[T any](c *Chan[T]) *RecvCase[T] { return &RecvCase[T]{c: c} }

type SelCase interface {
	ch() chanI
	take(t *Thread, op *Op, fromPartner bool)
	send() (bool, interface{})
	valLabel(s *Sched) string
}

func (rc *RecvCase[T]) valLabel(s *Sched) string {
	if !HistHash {
		return ""
	}
	return s.valLabel(any(rc.V)) + fmt.Sprint(rc.Ok)
}
func (sc *SendCaseT[T]) valLabel(s *Sched) string { return "" }

func (rc *RecvCase[T]) send() (bool, interface{}) { return false, nil }

// SendCaseT is a `case ch <- v:` clause of a select.
type SendCaseT[T any] struct {
	c *Chan[T]
	v T
}

func SendCase[T any](c *Chan[T], v T) *SendCaseT[T] { return &SendCaseT[T]{c: c, v: v} }

func (sc *SendCaseT[T]) ch() chanI {
	if sc.c == nil {
		return nil
	}
	return sc.c
}
func (sc *SendCaseT[T]) send() (bool, interface{}) { return true, sc.v }
func (sc *SendCaseT[T]) take(t *Thread, op *Op, fromPartner bool) {
	if fromPartner {
		return // a receiver already took the value
	}
	sc.c.performSend(t, sc.v, op)
}

func (rc *RecvCase[T]) ch() chanI {
	if rc.c == nil {
		return nil
	}
	return rc.c
}

func (rc *RecvCase[T]) take(t *Thread, op *Op, fromPartner bool) {
	if fromPartner {
		if op.val != nil {
			rc.V = op.val.(T)
		}
		rc.Ok = op.ok
		return
	}
	o2 := &Op{kind: opRecv, ch: rc.c, partner: op.partner, letIn: op.letIn}
	rc.V, rc.Ok = rc.c.finishRecv(t, o2)
}

// Select blocks until one receive case is ready, performs it and returns its index;
// which of several ready cases fires is a choice of the explorer.
func Select(cases ...SelCase) int { return doSelect(false, cases) }

// SelectDefault is Select with a default clause; it returns -1 when no case is ready.
func SelectDefault(cases ...SelCase) int { return doSelect(true, cases) }

func doSelect(hasDef bool, cases []SelCase) int {
	s := Cur
	t := s.me()
	s.arrival++
	op := &Op{kind: opSelect, since: s.arrival, hasDef: hasDef}
	for _, c := range cases {
		op.cases = append(op.cases, c.ch())
		isSend, v := c.send()
		op.dirs = append(op.dirs, isSend)
		op.svals = append(op.svals, v)
	}
	t.pending = op
	s.reschedule(t, false)
	if op.completed {
		cases[op.selIdx].take(t, op, true)
		t.log("select", fmt.Sprint(op.selIdx), cases[op.selIdx].valLabel(s))
		return op.selIdx
	}
	idx := op.selCase
	if idx < 0 {
		if hasDef {
			t.log("select", "default")
			return -1
		}
		panic("vs: select scheduled but no case ready")
	}
	cases[idx].take(t, op, false)
	t.log("select", fmt.Sprint(idx), cases[idx].valLabel(s))
	return idx
}
