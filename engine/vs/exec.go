//go:build verif

package vs

import (
	"io"
	"bytes"
	"fmt"
	"io/ioutil"
	"os"
	"os/exec"
	"path/filepath"
	"strings"
	"sync"
	"syscall"
	"time"
)

// Command-execution seam (replacement of exec.Command(...).CombinedOutput()/Output()).
//
//	sim   : SimExec runs the harness' mini-commands in-process through the FS seam
//	        (fault-injectable, crash points between partial writes)
//	real  : real process, synchronous (the whole scheduler waits): single-task scenarios
//	async : real process in its own process group; the thread blocks on "child exited";
//	        exits are observed only when no controlled thread is enabled, so the set of
//	        exited children is a function of the state, not of timing
var (
	ExecMode = "sim"
	// SimExec interprets a command; handled=false falls through to a real synchronous run.
	SimExec func(name string, args []string) (out []byte, err error, handled bool)
	// ExecLog receives every command line handed to the seam.
	ExecLog func(name string, args []string)
	// StuckAfter: a child whose whole process tree is blocked on a FIFO/pipe for two samples
	// is declared stuck; this is the cap after which a still-running child is given up on.
	StuckCap = 20 * time.Second
)

// Cmd mirrors the part of exec.Cmd that callers commonly touch.
type Cmd struct {
	name string
	args []string
	Path string
	Args []string
	Dir  string
	Env  []string
	// as in os/exec: when set, the child writes there directly (Run / Start+Wait then do NOT wait
	// for other processes that inherited the descriptors, exactly like the real package)
	Stdout, Stderr io.Writer
	Stdin          io.Reader
	// ProcessState is set once the command has run; in the simulator it is the genuine
	// state of a real process that ended the same way (exit status / killed by a signal).
	ProcessState *os.ProcessState
}

func Command(name string, args ...string) *Cmd {
	return &Cmd{name: name, args: args, Path: name, Args: append([]string{name}, args...)}
}

// Run is CombinedOutput without the output.
func (c *Cmd) Run() error { _, err := c.run(true); return err }

var okState *os.ProcessState

func successState() *os.ProcessState {
	realErrMu.Lock()
	defer realErrMu.Unlock()
	if okState == nil {
		cmd := exec.Command("bash", "-c", "true")
		cmd.Run()
		okState = cmd.ProcessState
	}
	return okState
}

func (c *Cmd) setState(err error) {
	if ee, ok := err.(*exec.ExitError); ok {
		c.ProcessState = ee.ProcessState
	} else if err == nil {
		c.ProcessState = successState()
	}
}

// ExitError is what a failed simulated command returns.
type ExitError struct{ Code int }

func (e *ExitError) Error() string { return fmt.Sprintf("exit status %d", e.Code) }

func (c *Cmd) CombinedOutput() ([]byte, error) { return c.run(true) }
func (c *Cmd) Output() ([]byte, error)         { return c.run(false) }

func (c *Cmd) run(combined bool) ([]byte, error) {
	if ExecLog != nil {
		ExecLog(c.name, c.args)
	}
	if Cur == nil {
		cmd := exec.Command(c.name, c.args...)
		cmd.Dir, cmd.Env = c.Dir, c.Env
		var out []byte
		var err error
		if combined {
			out, err = cmd.CombinedOutput()
		} else {
			out, err = cmd.Output()
		}
		c.ProcessState = cmd.ProcessState
		return out, err
	}
	if ExecMode == "sim" && SimExec != nil {
		if out, err, ok := SimExec(c.name, c.args); ok {
			c.setState(err)
			return out, err
		}
	}
	if ExecMode == "async" {
		// "mkfifo PATH" / "rm PATH" are file-system mutations: performed through the FS seam as one
		// synchronous visible operation instead of as a child process whose exit would only be
		// observed at the next quiescent state
		if c.name == "bash" && len(c.args) == 2 && c.args[0] == "-c" {
			f := strings.Fields(c.args[1])
			if len(f) == 2 && f[0] == "mkfifo" {
				p := f[1]
				if c.Dir != "" && !filepath.IsAbs(p) {
					p = filepath.Join(c.Dir, p)
				}
				t := fsOp("mkfifo", mut(p))
				err := syscall.Mkfifo(p, 0644)
				fsDone(t, "mkfifo", fmt.Sprint(p, err == nil), true, []string{p}, err)
				if err != nil {
					err = RealExitError(1)
				}
				c.setState(err)
				return nil, err
			}
			if len(f) == 2 && f[0] == "rm" {
				p := f[1]
				if c.Dir != "" && !filepath.IsAbs(p) {
					p = filepath.Join(c.Dir, p)
				}
				err := FSRemove(p)
				if err != nil {
					err = RealExitError(1)
				}
				c.setState(err)
				return nil, err
			}
		}
		return c.runAsync(combined)
	}
	// real, synchronous: one visible operation that may touch anything below cwd
	t := fsOp("exec", []fsAcc{{path: ".", write: true, subtree: true}})
	cmd := exec.Command(c.name, c.args...)
	cmd.Dir, cmd.Env = c.Dir, c.Env
	var out []byte
	var err error
	if c.Stdout != nil || c.Stderr != nil || c.Stdin != nil {
		cmd.Stdout, cmd.Stderr, cmd.Stdin = c.Stdout, c.Stderr, c.Stdin
		err = cmd.Run()
	} else if combined {
		out, err = cmd.CombinedOutput()
	} else {
		out, err = cmd.Output()
	}
	c.ProcessState = cmd.ProcessState
	fsDone(t, "exec", strings.Join(c.args, " "), true, []string{"."}, err)
	return out, err
}

// ---------------------------------------------------------------- async children

type childProc struct {
	cmd      *exec.Cmd
	out      bytes.Buffer
	mu       sync.Mutex
	finished bool // set by the waiter goroutine
	observed bool // set by the scheduler (deterministic)
	stuck    bool
	err      error
	desc     string
}

func (c *childProc) exited() bool { return c.observed }

func (c *childProc) isFinished() bool {
	c.mu.Lock()
	defer c.mu.Unlock()
	return c.finished
}

func (c *Cmd) runAsync(combined bool) ([]byte, error) {
	s := Cur
	t := s.me()
	// starting the child is a visible operation
	tt := fsOp("exec-start", []fsAcc{{path: ".", write: true, subtree: true}})
	cp := &childProc{cmd: exec.Command(c.name, c.args...), desc: strings.Join(c.args, " ")}
	cp.cmd.Dir, cp.cmd.Env = c.Dir, c.Env
	cp.cmd.SysProcAttr = &syscall.SysProcAttr{Setpgid: true}
	cp.cmd.Stdout = &cp.out
	if combined {
		cp.cmd.Stderr = &cp.out
	}
	err := cp.cmd.Start()
	fsDone(tt, "exec-start", cp.desc, false, nil, err)
	if err != nil {
		return nil, err
	}
	s.children = append(s.children, cp)
	s.liveChildren++ // "executing" from the caller's point of view: started, exit not yet returned to it
	if os.Getenv("VS_DEBUG_CHILD") != "" {
		fmt.Fprintf(os.Stderr, "CHILD+ live=%d %s\n", s.liveChildren, cp.desc)
	}
	if s.liveChildren > s.maxLiveChildren {
		s.maxLiveChildren = s.liveChildren
	}
	go func() {
		e := cp.cmd.Wait()
		cp.mu.Lock()
		cp.err = e
		cp.finished = true
		cp.mu.Unlock()
	}()
	t.pending = &Op{kind: opChild, child: cp, desc: cp.desc}
	s.reschedule(t, false)
	t.log("child", cp.desc)
	s.liveChildren--
	if os.Getenv("VS_DEBUG_CHILD") != "" {
		fmt.Fprintf(os.Stderr, "CHILD- live=%d %s\n", s.liveChildren, cp.desc)
	}
	if CrashMode {
		observeDisk("exec " + cp.desc)
	}
	c.ProcessState = cp.cmd.ProcessState
	return cp.out.Bytes(), cp.err
}

// waitChildren is called when no controlled thread is enabled. It waits until every running
// child has either exited or is provably stuck, marks the exits as observed and reports
// whether anything new was observed.
func (s *Sched) waitChildren() bool {
	running := []*childProc{}
	for _, c := range s.children {
		if !c.observed && !c.stuck {
			running = append(running, c)
		}
	}
	if len(running) == 0 {
		return false
	}
	t0 := time.Now()
	lastSig := ""
	stable := 0
	for {
		all := true
		sig := ""
		for _, c := range running {
			if c.isFinished() {
				continue
			}
			st, blocked := treeState(c.cmd.Process.Pid)
			sig += st + ";"
			if !blocked {
				all = false
			}
		}
		anyUnfinished := false
		for _, c := range running {
			if !c.isFinished() {
				anyUnfinished = true
			}
		}
		if !anyUnfinished {
			break
		}
		if all && sig == lastSig {
			stable++
		} else {
			stable = 0
		}
		lastSig = sig
		if all && stable >= 3 {
			break // every unfinished child is blocked on a FIFO/pipe, unchanged over 4 samples
		}
		if time.Since(t0) > StuckCap {
			break
		}
		if stable > 0 {
			time.Sleep(30 * time.Millisecond)
		} else {
			time.Sleep(time.Millisecond)
		}
	}
	news := false
	for _, c := range running {
		if c.isFinished() {
			c.observed = true
			news = true
		} else {
			c.stuck = true
			s.Notes = append(s.Notes, "sched:stuck-child "+c.desc+" ["+lastSig+"]")
		}
	}
	return news
}

// treeState: kernel-level evidence for "this process tree cannot make progress by itself".
func treeState(pid int) (string, bool) {
	pids := []int{pid}
	for i := 0; i < len(pids); i++ {
		tasks, _ := filepath.Glob(fmt.Sprintf("/proc/%d/task/*/children", pids[i]))
		for _, tf := range tasks {
			d, _ := ioutil.ReadFile(tf)
			for _, f := range strings.Fields(string(d)) {
				var c int
				fmt.Sscan(f, &c)
				if c > 0 {
					pids = append(pids, c)
				}
			}
		}
	}
	sig := []string{}
	blockedOnPipe := false
	for _, p := range pids {
		st, _ := ioutil.ReadFile(fmt.Sprintf("/proc/%d/stat", p))
		fields := strings.Fields(string(st))
		state := "?"
		if i := strings.LastIndex(string(st), ")"); i >= 0 {
			rest := strings.Fields(string(st)[i+1:])
			if len(rest) > 0 {
				state = rest[0]
			}
		}
		_ = fields
		stack, _ := ioutil.ReadFile(fmt.Sprintf("/proc/%d/stack", p))
		where := "other"
		ss := string(stack)
		switch {
		case strings.Contains(ss, "fifo_open") || strings.Contains(ss, "wait_for_partner"):
			where = "fifo_open"
			blockedOnPipe = true
		case strings.Contains(ss, "pipe_read"):
			where = "pipe_read"
			blockedOnPipe = true
		case strings.Contains(ss, "pipe_write"):
			where = "pipe_write"
			blockedOnPipe = true
		case strings.Contains(ss, "do_wait"):
			where = "wait"
		}
		if state == "Z" || state == "?" {
			where = "gone"
		} else if state != "S" || where == "other" {
			return fmt.Sprintf("%d:%s:%s", p, state, where), false
		}
		sig = append(sig, fmt.Sprintf("%d:%s:%s", p, state, where))
	}
	return strings.Join(sig, ","), blockedOnPipe
}

// reapChildren kills whatever is still running when the execution ends.
func (s *Sched) reapChildren() {
	for _, c := range s.children {
		if !c.isFinished() && c.cmd.Process != nil {
			syscall.Kill(-c.cmd.Process.Pid, syscall.SIGKILL)
		}
	}
	for _, c := range s.children {
		for i := 0; i < 2000 && !c.isFinished(); i++ {
			time.Sleep(time.Millisecond)
		}
	}
}

// StuckChildren lists the children that were declared stuck during the execution.
func (s *Sched) StuckChildren() []string {
	r := []string{}
	for _, c := range s.children {
		if c.stuck {
			r = append(r, c.desc)
		}
	}
	return r
}

func mkfifo(p string) error {
	os.Remove(p)
	return syscall.Mkfifo(p, 0644)
}

// RealExitError returns a genuine *exec.ExitError for the given exit status (obtained once
// from a real child process), so that code inspecting the error's dynamic type and
// ExitCode() behaves exactly as with real commands. code < 0: killed by SIGKILL.
var realErrs = map[int]error{}
var realErrMu sync.Mutex

func RealExitError(code int) error {
	realErrMu.Lock()
	defer realErrMu.Unlock()
	if e, ok := realErrs[code]; ok {
		return e
	}
	script := fmt.Sprintf("exit %d", code)
	if code < 0 {
		script = "kill -KILL $$"
	}
	_, err := exec.Command("bash", "-c", script).CombinedOutput()
	if err == nil {
		err = &ExitError{Code: code}
	}
	realErrs[code] = err
	return err
}

// MaxLiveChildren: the largest number of child processes that were started and whose exit had
// not yet been returned to their caller, at any instant of this execution (async mode).
func (s *Sched) MaxLiveChildren() int { return s.maxLiveChildren }
