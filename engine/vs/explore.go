//go:build verif

package vs

import (
	"time"
)

// Stats of one exploration.
type Stats struct {
	Mode         string  `json:"mode"` // "dpor+sleep" | "naive" | "naive+cache" | "delay<=k" | "single"
	Execs        int     `json:"executions"`
	SleepBlocked int     `json:"sleep_blocked"`
	Pruned       int     `json:"pruned"`
	Nodes        int     `json:"states"`      // search-tree nodes (DPOR frames / choice points / distinct hashed states)
	Transitions  int     `json:"transitions"` // visible steps executed over all executions
	MaxDepth     int     `json:"max_depth"`
	Closed       bool    `json:"closed"` // the search ran out of unexplored alternatives
	DelayBound   int     `json:"delay_bound,omitempty"`
	Wall         float64 `json:"wall_s"`
	Horizon      int     `json:"horizon_hits"`
}

// Setup is called before every execution (fresh scratch directory etc.).
// Reduced: the running exploration prunes by the dependency table (DPOR); constructs the table
// was not validated for make the execution abort with "unsupported: ..." (never a verdict).
var Reduced bool

type Setup func()

// Visit is called after every complete (not sleep-blocked / pruned) execution; returning
// false stops the exploration.
type Visit func(s *Sched) bool

// ExploreDPOR enumerates one execution per Mazurkiewicz trace (DPOR + sleep sets).
func ExploreDPOR(setup Setup, body func(), visit Visit, deadline time.Time) Stats {
	Reduced = true
	defer func() { Reduced = false }()
	d := &DPOR{}
	st := Stats{Mode: "dpor+sleep"}
	t0 := time.Now()
	for {
		if setup != nil {
			setup()
		}
		s := Run(d, body)
		if restartPure(s) {
			r := ExploreDPOR(setup, body, visit, deadline)
			r.Execs += st.Execs + 1
			return r
		}
		st.Execs++
		st.Transitions += s.StepCount()
		if s.Outcome == "horizon" {
			st.Horizon++
		}
		cont := true
		if s.Outcome != "sleepblocked" {
			cont = visit(s)
		}
		if !d.Next() {
			st.Closed = true
			break
		}
		if !cont || (!deadline.IsZero() && time.Now().After(deadline)) {
			break
		}
	}
	st.SleepBlocked = d.SleepBlocked
	st.Nodes = d.Nodes
	st.MaxDepth = d.MaxDepth
	st.Wall = time.Since(t0).Seconds()
	return st
}

// ExploreNaive branches on every enabled thread at every visible operation (the unreduced
// reference explorer); with cache, states already seen (canonical hash) are pruned.
// delayBound >= 0 restricts to schedules with at most that many delays (non-default
// thread choices); branch choices are always fully expanded.
func ExploreNaive(setup Setup, body func(), visit Visit, cache bool, delayBound int, deadline time.Time) Stats {
	st := Stats{Mode: "naive"}
	var vfn func(uint64) bool
	seen := map[uint64]bool{}
	if cache {
		st.Mode = "naive+cache"
		HistHash = true
		vfn = func(k uint64) bool {
			if seen[k] {
				return true
			}
			seen[k] = true
			return false
		}
	}
	if delayBound >= 0 {
		st.Mode = "delay-bounded"
		st.DelayBound = delayBound
	}
	t0 := time.Now()
	stack := [][]int{{}}
	st.Closed = true
	for len(stack) > 0 {
		p := stack[len(stack)-1]
		stack = stack[:len(stack)-1]
		if setup != nil {
			setup()
		}
		s := Run(&Prefix{Choices: p, Visited: vfn}, body)
		if restartPure(s) {
			r := ExploreNaive(setup, body, visit, cache, delayBound, deadline)
			r.Execs += st.Execs + 1
			return r
		}
		st.Execs++
		st.Transitions += s.StepCount()
		if s.Outcome == "horizon" {
			st.Horizon++
		}
		cont := true
		if s.Outcome == "pruned" {
			st.Pruned++
		} else {
			cont = visit(s)
		}
		ch := s.ReplayChoices()
		if len(ch) > st.MaxDepth {
			st.MaxDepth = len(ch)
		}
		delays := 0
		for i := 0; i < len(p) && i < len(ch); i++ {
			if ch[i].Kind == "sched" && ch[i].Chosen != 0 {
				delays++
			}
		}
		idx := make([]int, len(ch))
		for i, c := range ch {
			idx[i] = c.Chosen
		}
		for i := len(ch) - 1; i >= len(p); i-- {
			c := ch[i]
			st.Nodes++
			for alt := c.N - 1; alt >= 1; alt-- {
				if delayBound >= 0 && c.Kind == "sched" && delays+1 > delayBound {
					continue
				}
				stack = append(stack, append(append([]int{}, idx[:i]...), alt))
			}
		}
		if !cont || (!deadline.IsZero() && time.Now().After(deadline)) {
			if len(stack) > 0 {
				st.Closed = false
			}
			break
		}
	}
	if cache {
		st.Nodes = len(seen)
	}
	st.Wall = time.Since(t0).Seconds()
	return st
}

// RunOnce runs the default schedule (choice 0 everywhere) after the given choice prefix.
func RunOnce(setup Setup, body func(), choices []int) *Sched {
	if setup != nil {
		setup()
	}
	s := Run(&Prefix{Choices: choices}, body)
	if restartPure(s) {
		return RunOnce(setup, body, choices)
	}
	return s
}

// Replay re-executes a recorded execution; any divergence from the recording panics.
func Replay(setup Setup, body func(), rec []Choice) *Sched {
	idx := make([]int, len(rec))
	for i, c := range rec {
		idx[i] = c.Chosen
	}
	if setup != nil {
		setup()
	}
	s := Run(&Prefix{Choices: idx, Strict: true, Expect: rec}, body)
	if restartPure(s) {
		return Replay(setup, body, rec)
	}
	return s
}
