//go:build verif

package vs

import (
	"fmt"
	"os"
	"sort"
	"strings"
)

// ---------------------------------------------------------------- vector clocks, accesses

func (s *Sched) clockOf(t *Thread) []int {
	c := s.clocks[t]
	for len(c) < len(s.threads) {
		c = append(c, 0)
	}
	s.clocks[t] = c
	return c
}

func (s *Sched) syncClockOf(t *Thread) []int {
	c := s.syncClk[t]
	for len(c) < len(s.threads) {
		c = append(c, 0)
	}
	s.syncClk[t] = c
	return c
}

func leq(a, b []int) bool {
	for i := range a {
		bv := 0
		if i < len(b) {
			bv = b[i]
		}
		if a[i] > bv {
			return false
		}
	}
	return true
}

func joinClk(dst []int, src []int) []int {
	for k := range src {
		for len(dst) <= k {
			dst = append(dst, 0)
		}
		if src[k] > dst[k] {
			dst[k] = src[k]
		}
	}
	return dst
}

type access struct {
	obj   string
	write bool
}

type vobj struct {
	lastW int
	reads []int
	hist  []accRec
}

type accRec struct {
	step  int
	write bool
}

type stepInfo struct {
	thr   *Thread
	clock []int
	kind  opKind
	frame int
	idx   int
}

func muLabel(m *Mutex) string   { return fmt.Sprintf("M%p", m) }
func wgLabel(w *WaitGroup) string { return fmt.Sprintf("W%p", w) }

// opObjs: the objects an op touches, for sleep-set dependence (coarse: object identity).
func opObjs(op *Op) []string {
	o := []string{}
	if op == nil {
		return o
	}
	if op.ch != nil && !isNilChan(op.ch) {
		o = append(o, op.ch.label())
	}
	if op.mu != nil {
		o = append(o, muLabel(op.mu))
	}
	if op.wg != nil {
		o = append(o, wgLabel(op.wg))
	}
	for _, c := range op.cases {
		if c != nil && !isNilChan(c) {
			o = append(o, c.label())
		}
	}
	if op.obj != "" {
		o = append(o, op.obj)
	}
	return o
}

func baseObjs(op *Op) []string {
	if op == nil || op.completed {
		return nil
	}
	return opObjs(op)
}

// accessesOf: the (object, mode) accesses a step declares — the table of DESIGN.md Appendix A.
// A rendezvous (or a receive that lets a blocked sender in) is a joint transition: it also
// orders the partner side, so it must conflict with other senders / receivers of the channel.
func accessesOf(kind opKind, op *Op, self *Thread) []access {
	a := []access{{"PROC", kind == opExit}}
	if op.completed {
		return a
	}
	switch kind {
	case opSend:
		if op.ch != nil && !isNilChan(op.ch) {
			if op.ch.isClosed() {
				a[0].write = true // it will panic: ends the program like an exit, dependent with everything
			}
			a = append(a, access{op.ch.label() + ".SQ", true}, access{op.ch.label() + ".RD", true})
			if (op.prepared && op.partner != nil) || (!op.prepared && self != nil && op.ch.npending(self, false) > 0) {
				a = append(a, access{op.ch.label() + ".RQ", true})
			}
		}
	case opRecv:
		if op.ch != nil && !isNilChan(op.ch) {
			a = append(a, access{op.ch.label() + ".RQ", true})
			if (op.prepared && (op.partner != nil || op.letIn != nil)) || (!op.prepared && self != nil && op.ch.npending(self, true) > 0) {
				a = append(a, access{op.ch.label() + ".SQ", true})
			}
		}
	case opClose:
		l := op.ch.label()
		if op.ch.isClosed() && op.desc != "len" {
			a[0].write = true // close of a closed channel panics
		}
		a = append(a, access{l + ".SQ", true}, access{l + ".RQ", true}, access{l + ".RD", true})
	case opSelect:
		for i, c := range op.cases {
			if c == nil || isNilChan(c) {
				continue
			}
			if op.isSendCase(i) {
				if c.isClosed() {
					a[0].write = true
				}
				a = append(a, access{c.label() + ".SQ", true}, access{c.label() + ".RD", true})
				if self != nil && c.npending(self, false) > 0 {
					a = append(a, access{c.label() + ".RQ", true})
				} else {
					// a send case is only supported in the non-blocking form: whether there is room
					// (send) or not (default) depends on the receives performed so far, so the
					// operation READS the receive side and is dependent with every receive
					a = append(a, access{c.label() + ".RQ", false})
				}
				continue
			}
			a = append(a, access{c.label() + ".RD", false}, access{c.label() + ".RQ", true})
			if self != nil && c.npending(self, true) > 0 {
				a = append(a, access{c.label() + ".SQ", true})
			}
		}
	case opLock, opUnlock:
		a = append(a, access{muLabel(op.mu), true})
	case opWg:
		// Add / Done commute with each other; they conflict with Wait
		a = append(a, access{wgLabel(op.wg), false})
	case opWgWait:
		a = append(a, access{wgLabel(op.wg), true})
	case opYield:
		if op.obj != "" {
			a = append(a, access{op.obj, true})
		}
	case opMem:
		a = append(a, access{op.obj, op.memW})
	case opFS:
		if DiskDependent {
			for _, f := range op.fs {
				if f.write {
					a = append(a, access{"DISK", true})
					break
				}
			}
		}
	case opChild:
		a = append(a, access{"CHILDREN", true})
	case opSleep:
		// its enabledness depends on every other thread: dependent with everything, like exit
		a = append(a, access{"PROC", true})
	}
	return a
}

func coEnabledKinds(a, b opKind) bool {
	if a == opUnlock || b == opUnlock {
		return false
	}
	return true
}

// ---------------------------------------------------------------- DPOR + sleep sets

// Frame is one entry of the DPOR search stack.
type Frame struct {
	Kind      string // "sched" or the name of a branch
	Enabled   []string
	Chosen    string
	N         int
	Backtrack map[string]bool
	Done      map[string]bool
	PendingAt map[string]int
	Sleep     map[string]bool
}

// DPOR is the stack of a dynamic-partial-order-reduction search with sleep sets; it lives
// across the executions of one exploration.
type DPOR struct {
	Stack        []*Frame
	Execs        int
	SleepBlocked int
	Nodes        int // frames ever created (search-tree nodes)
	MaxDepth     int
	NoSleep      bool
	DebugRace    bool
}

// Next prepares the stack for the next execution; false when the exploration is complete.
func (d *DPOR) Next() bool {
	if len(d.Stack) > d.MaxDepth {
		d.MaxDepth = len(d.Stack)
	}
	for len(d.Stack) > 0 {
		f := d.Stack[len(d.Stack)-1]
		var pick string
		found := false
		keys := make([]string, 0, len(f.Backtrack))
		for k := range f.Backtrack {
			keys = append(keys, k)
		}
		sort.Strings(keys)
		for _, k := range keys {
			if !f.Done[k] && !f.Sleep[k] {
				pick, found = k, true
				break
			}
		}
		if found {
			if DebugRaceAll {
				fmt.Printf("NEXT: frame %d (%s) pick %s backtrack=%v done=%v sleep=%v\n", len(d.Stack)-1, f.Kind, pick, f.Backtrack, f.Done, f.Sleep)
			}
			f.Chosen = pick
			f.Done[pick] = true
			return true
		}
		if DebugRaceAll {
			fmt.Printf("NEXT: pop frame %d (%s) backtrack=%v done=%v sleep=%v\n", len(d.Stack)-1, f.Kind, f.Backtrack, f.Done, f.Sleep)
		}
		d.Stack = d.Stack[:len(d.Stack)-1]
	}
	return false
}

// PickThread implements Strategy.
func (d *DPOR) PickThread(s *Sched, en []*Thread) *Thread {
	ids := make([]string, len(en))
	byID := map[string]*Thread{}
	for i, t := range en {
		ids[i] = t.id
		byID[t.id] = t
	}
	var f *Frame
	if s.depth < len(d.Stack) {
		f = d.Stack[s.depth]
		if f.Kind != "sched" {
			panic(fmt.Sprintf("replay divergence at depth %d: frame kind %s, expected sched", s.depth, f.Kind))
		}
	} else {
		first := ""
		for _, id := range ids {
			if !s.sleep[id] {
				first = id
				break
			}
		}
		if first == "" {
			d.SleepBlocked++
			s.abort("sleepblocked")
		}
		f = &Frame{Kind: "sched", Enabled: ids, Chosen: first, Backtrack: map[string]bool{first: true}, Done: map[string]bool{first: true}, Sleep: map[string]bool{}}
		for k := range s.sleep {
			f.Sleep[k] = true
		}
		d.Stack = append(d.Stack, f)
		d.Nodes++
	}
	// remember, for every live thread, which local op it is waiting at (co-enabledness rule 2)
	f.PendingAt = map[string]int{}
	for _, o := range s.threads {
		if !o.done && o.pending != nil {
			f.PendingAt[o.id] = o.nops
		}
	}
	t := byID[f.Chosen]
	if t == nil {
		panic(fmt.Sprintf("replay divergence at depth %d: thread %s not enabled (enabled %v)", s.depth, f.Chosen, ids))
	}
	idx := 0
	for i, id := range ids {
		if id == t.id {
			idx = i
		}
	}
	s.Choices = append(s.Choices, Choice{Kind: "sched", N: len(en), Chosen: idx, Thread: t.id, Self: en[0] == s.cur})
	frameIdx := s.depth
	s.depth++
	// branch choices of the step (ready case, partner) come first: a rendezvous is a joint
	// transition, so the partner's op belongs to the step
	s.prepareOp(t, t.pending)
	// sleep set of the successor state
	ns := map[string]bool{}
	if !d.NoSleep {
		base := baseObjs(t.pending)
		for _, q := range []*Thread{t.pending.partner, t.pending.letIn} {
			if q != nil {
				base = append(base, opObjs(q.pending)...)
			}
		}
		consider := func(q string) {
			if q == t.id {
				return
			}
			var qt *Thread
			for _, o := range s.threads {
				if o.id == q {
					qt = o
				}
			}
			if qt == nil || qt.done || qt.pending == nil {
				return
			}
			// process exit disables everybody: dependent with every op
			if qt.pending.kind == opExit || t.pending.kind == opExit || qt.pending.kind == opSleep || t.pending.kind == opSleep {
				return
			}
			if qt.pending.kind == opFS && t.pending.kind == opFS && !qt.pending.completed && !t.pending.completed {
				if DiskDependent {
					return
				}
				for _, x := range qt.pending.fs {
					for _, y := range t.pending.fs {
						if fsConflict(x, y) {
							return
						}
					}
				}
			}
			for _, a := range baseObjs(qt.pending) {
				for _, b := range base {
					if a == b {
						return // dependent: wakes up
					}
				}
			}
			ns[q] = true
		}
		for q := range f.Sleep {
			consider(q)
		}
		for q := range f.Done {
			consider(q)
		}
	}
	s.sleep = ns
	s.bookStep(t, frameIdx, d)
	return t
}

// PickAlt implements Strategy: a branch frame whose alternatives are all explored.
func (d *DPOR) PickAlt(s *Sched, n int, what string) int {
	var f *Frame
	if s.depth < len(d.Stack) {
		f = d.Stack[s.depth]
		if f.Kind != what {
			panic(fmt.Sprintf("replay divergence at depth %d: frame kind %s, expected %s", s.depth, f.Kind, what))
		}
	} else {
		f = &Frame{Kind: what, N: n, Backtrack: map[string]bool{}, Done: map[string]bool{"0": true}, Chosen: "0", Sleep: map[string]bool{}}
		for i := 0; i < n; i++ {
			f.Backtrack[fmt.Sprint(i)] = true
		}
		d.Stack = append(d.Stack, f)
		d.Nodes++
	}
	s.depth++
	var k int
	fmt.Sscan(f.Chosen, &k)
	if k >= n {
		panic(fmt.Sprintf("replay divergence: arity of %s is %d, chosen %d", what, n, k))
	}
	s.Choices = append(s.Choices, Choice{Kind: what, N: n, Chosen: k})
	if DebugRaceAll {
		fmt.Printf("ALT %s n=%d chosen=%d depth=%d thr=%s\n", what, n, k, s.depth, s.cur.id)
	}
	return k
}

// bookStep: clocks, access histories and (with DPOR) race detection for the step that thread
// t is about to perform. frameIdx is the index of the scheduling frame (DPOR) or -1.
func (s *Sched) bookStep(t *Thread, frameIdx int, d *DPOR) {
	if _, ok := s.tidx[t]; !ok {
		s.tidx[t] = len(s.tidx)
	}
	op := t.pending
	s.prepareOp(t, op)
	ct := s.clockOf(t)
	if op.completed {
		// partner performed the transfer; inherit its clock
		ct = joinClk(ct, op.joinClk)
	}
	// ctExt: everything that causally precedes the upcoming transition itself (program order +
	// the partner of a rendezvous + the send of the message it takes): used to find the
	// initials of the sequence that has to run first when a race is reversed. ct proper (the
	// thread's past) decides what is a race (Flanagan-Godefroid).
	ctExt := append([]int{}, ct...)
	if op.partner != nil {
		ctExt = joinClk(ctExt, s.clockOf(op.partner))
	}
	if op.letIn != nil {
		ctExt = joinClk(ctExt, s.clockOf(op.letIn))
	}
	if op.preClk != nil {
		ctExt = joinClk(ctExt, op.preClk)
	}
	accs := accessesOf(op.kind, op, t)
	if OptPartnerAccesses {
		for _, q := range []*Thread{op.partner, op.letIn} {
			if q != nil && q.pending != nil {
				accs = append(accs, accessesOf(q.pending.kind, q.pending, q)...)
			}
		}
	}
	s.curAccs = accs
	s.curRaceClk = ctExt
	confl := s.detectRaces(t, accs, ct, d)
	// a rendezvous is a joint transition of two threads: the partner's op (which never gets a
	// step of its own) races with earlier steps too, e.g. with a select of the performing
	// thread that ran before the partner had arrived
	if d != nil && OptPartnerRaces {
		for _, q := range []*Thread{op.partner, op.letIn} {
			if q != nil && q.pending != nil {
				s.detectRaces(q, accessesOf(q.pending.kind, q.pending, q), s.clockOf(q), d)
			}
		}
	}
	s.curRaceClk = nil
	for _, i := range confl {
		ct = joinClk(ct, s.steps[i].clock)
	}
	// capacity edge of buffered channels (Go memory model: k-th receive -> (k+C)-th send)
	var slotSync []int
	if !op.completed && op.kind == opSend && op.ch != nil && !isNilChan(op.ch) {
		var sc []int
		sc, slotSync = op.ch.slotClock()
		ct = joinClk(ct, sc)
	}
	ti := s.tidx[t]
	for len(ct) <= ti {
		ct = append(ct, 0)
	}
	ct[ti]++
	s.clocks[t] = ct
	snap := append([]int{}, ct...)
	si := len(s.steps)
	s.steps = append(s.steps, stepInfo{thr: t, clock: snap, kind: op.kind, frame: frameIdx, idx: si})
	for _, a := range accs {
		vo := s.vobjs[a.obj]
		if vo == nil {
			vo = &vobj{lastW: -1}
			s.vobjs[a.obj] = vo
		}
		vo.hist = append(vo.hist, accRec{si, a.write})
		if a.write {
			vo.lastW = si
			vo.reads = nil
		} else {
			vo.reads = append(vo.reads, si)
		}
	}
	if op.kind == opFS && !op.completed {
		for _, f := range op.fs {
			s.fsHist = append(s.fsHist, fsRec{si, f})
		}
	}
	// synchronisation-only clock (data-race monitor): joined only at real synchronisation
	if RaceMode {
		sc := s.syncClockOf(t)
		if op.completed {
			sc = joinClk(sc, op.joinSync)
		}
		if !op.completed && (op.kind == opLock) {
			if c, ok := s.syncObjClk[muLabel(op.mu)]; ok {
				sc = joinClk(sc, c)
			}
		}
		if !op.completed && op.kind == opWgWait {
			if c, ok := s.syncObjClk[wgLabel(op.wg)]; ok {
				sc = joinClk(sc, c)
			}
		}
		sc = joinClk(sc, slotSync) // the capacity edge is a real synchronisation edge too
		for len(sc) <= ti {
			sc = append(sc, 0)
		}
		sc[ti]++
		s.syncClk[t] = sc
		s.curSyncClk = append([]int{}, sc...)
	}
	s.curStepClk = snap
}

// detectRaces: backtrack points for t's pending op; returns the conflicting steps (for clock joins).
func (s *Sched) detectRaces(t *Thread, accs []access, ct []int, d *DPOR) []int {
	op := t.pending
	confl := []int{}
	for _, a := range accs {
		vo := s.vobjs[a.obj]
		if vo == nil {
			continue
		}
		if vo.lastW >= 0 {
			confl = append(confl, vo.lastW)
		}
		if a.write {
			confl = append(confl, vo.reads...)
		}
	}
	if d != nil {
		for _, a := range accs {
			vo := s.vobjs[a.obj]
			if vo == nil {
				continue
			}
			for k := len(vo.hist) - 1; k >= 0; k-- {
				r := vo.hist[k]
				if !a.write && !r.write {
					continue
				}
				st := s.steps[r.step]
				if st.thr == t || !coEnabledKinds(st.kind, op.kind) {
					continue
				}
				if leq(st.clock, ct) {
					break
				}
				s.race(d, st, t)
				break
			}
		}
	}
	if op.kind == opFS && !op.completed {
		found := false
		for k := len(s.fsHist) - 1; k >= 0; k-- {
			r := s.fsHist[k]
			st := s.steps[r.step]
			if st.thr == t {
				continue
			}
			c := false
			for _, f := range op.fs {
				if fsConflict(r.acc, f) {
					c = true
				}
			}
			if !c {
				continue
			}
			confl = append(confl, r.step)
			if d != nil && !found && !leq(st.clock, ct) {
				s.race(d, st, t)
				found = true
			}
		}
	}
	return confl
}

// finalRaces: the execution is about to end although threads are still alive (main
// returned / exit): their pending ops never execute, so check their races now.
func (s *Sched) finalRaces() {
	d, ok := s.strat.(*DPOR)
	if !ok {
		return
	}
	for _, t := range s.threads {
		if t.done || t.pending == nil || t.pending.completed {
			continue
		}
		// also for a thread that is BLOCKED at its pending op (a lock somebody keeps, a receive
		// whose item somebody else took): the step that disabled it is the one to reverse -
		// otherwise the executions in which this thread went first are never tried from here
		if !s.enabled(t) && !FinalRacesBlocked {
			continue
		}
		s.detectRaces(t, accessesOf(t.pending.kind, t.pending, t), s.clockOf(t), d)
	}
}

// FinalRacesBlocked: race check of the pending operations of blocked threads when an execution
// ends (deadlock, exit, return of main). VS_NO_FINAL_BLOCKED=1 switches it off (measurements).
var FinalRacesBlocked = os.Getenv("VS_NO_FINAL_BLOCKED") == ""

var DebugRaceAll = os.Getenv("VS_DEBUG_RACE") != ""

// Engine variants (for measurements; the defaults are what conformance validates)
var (
	OptPartnerAccesses = os.Getenv("VS_NO_PARTNER_ACC") == ""  // joint step declares the partner's accesses
	OptPartnerRaces    = os.Getenv("VS_NO_PARTNER_RACE") == "" // race check on behalf of the partner
	OptRule2           = os.Getenv("VS_RULE2") != ""           // "already waiting at this op and disabled: nothing to reverse"
	OptOldRace         = os.Getenv("VS_OLD_RACE") != ""        // Flanagan-Godefroid style backtrack choice instead of source sets
)

// race: step st (earlier, = e) and the next op n of t are dependent, of co-enabled kinds and
// unordered. Source-set rule (Abdulla et al., "Optimal dynamic partial order reduction"):
// let v = the events after e that do not happen-after e, followed by n; some thread that can
// start v (an initial: its first event in v has no happens-before predecessor in v) must be
// in the backtrack set of the frame before e.
func (s *Sched) race(d *DPOR, st stepInfo, t *Thread) {
	if st.frame < 0 || st.frame >= len(d.Stack) {
		return
	}
	fi := d.Stack[st.frame]
	if d.DebugRace || DebugRaceAll {
		fmt.Printf("RACE step(frame %d thr %s kind %s) vs thr %s op %s obj=%v enabledAtPre=%v\n", st.frame, st.thr.id, kindNames[st.kind], t.id, kindNames[t.pending.kind], opObjs(t.pending), fi.Enabled)
	}
	if OptOldRace {
		s.raceOld(d, st, t)
		return
	}
	if OptRule2 {
		enabledThere := false
		for _, e := range fi.Enabled {
			if e == t.id {
				enabledThere = true
			}
		}
		if at, ok := fi.PendingAt[t.id]; ok && at == t.nops && !enabledThere {
			return
		}
	}
	ei := s.tidx[st.thr]
	ev := st.clock[ei]
	after := func(x stepInfo) bool { return ei < len(x.clock) && x.clock[ei] >= ev } // e -> x
	ctExt := s.curRaceClk
	if ctExt == nil {
		ctExt = s.clockOf(t)
	}
	// v = steps after e not happening-after e (indices), then n
	v := []int{}
	for j := st.idx + 1; j < len(s.steps); j++ {
		if !after(s.steps[j]) {
			v = append(v, j)
		}
	}
	initials := []string{}
	seen := map[*Thread]bool{}
	for k, j := range v {
		x := s.steps[j]
		if seen[x.thr] {
			continue
		}
		seen[x.thr] = true
		isInit := true
		for _, i := range v[:k] {
			y := s.steps[i]
			yi := s.tidx[y.thr]
			if yi < len(x.clock) && x.clock[yi] >= y.clock[yi] { // y -> x
				isInit = false
				break
			}
		}
		if isInit {
			initials = append(initials, x.thr.id)
		}
	}
	if !seen[t] {
		isInit := true
		for _, i := range v {
			y := s.steps[i]
			yi := s.tidx[y.thr]
			if yi < len(ctExt) && ctExt[yi] >= y.clock[yi] { // y -> n
				isInit = false
				break
			}
		}
		if isInit {
			initials = append(initials, t.id)
		}
	}
	if DebugRaceAll {
		fmt.Printf("   v=%v initials=%v backtrack=%v sleep=%v done=%v\n", v, initials, fi.Backtrack, fi.Sleep, fi.Done)
	}
	for _, q := range initials {
		if fi.Backtrack[q] {
			return // already covered
		}
	}
	for _, q := range initials {
		for _, e := range fi.Enabled {
			if e == q {
				fi.Backtrack[q] = true
				return
			}
		}
	}
	// no initial is enabled at the frame (should not happen): be conservative
	for _, e := range fi.Enabled {
		fi.Backtrack[e] = true
	}
}

// raceOld: the backtrack choice of the first version (rule 1: t enabled -> t; rule 2: t was
// waiting at this op and disabled -> nothing; rule 3: some enabled thread with a later step
// that happens-before t's past; else all).
func (s *Sched) raceOld(d *DPOR, st stepInfo, t *Thread) {
	fi := d.Stack[st.frame]
	for _, e := range fi.Enabled {
		if e == t.id {
			fi.Backtrack[t.id] = true
			return
		}
	}
	if at, ok := fi.PendingAt[t.id]; ok && at == t.nops {
		return
	}
	ct := s.clockOf(t)
	for j := len(s.steps) - 1; j >= 0; j-- {
		sj := s.steps[j]
		if sj.frame <= st.frame {
			break
		}
		if leq(sj.clock, ct) {
			for _, e := range fi.Enabled {
				if e == sj.thr.id {
					fi.Backtrack[e] = true
					return
				}
			}
		}
	}
	for _, e := range fi.Enabled {
		fi.Backtrack[e] = true
	}
}

// ---------------------------------------------------------------- Prefix strategy

// Prefix follows a list of choices in index form and then takes choice 0 everywhere
// (running thread first). It serves the unreduced reference explorer, delay bounding and
// replay. With Visited set, states already seen are pruned at fresh choice points.
type Prefix struct {
	Choices []int
	Strict  bool                 // replay: the recorded N of every choice must match
	Expect  []Choice             // replay: recorded choices to compare with
	Visited func(key uint64) bool // true = seen before (and marks it)
	pos     int
}

func (p *Prefix) choose(s *Sched, n int, kind string, self bool, en []*Thread) int {
	idx := p.pos
	p.pos++
	c := 0
	if idx < len(p.Choices) {
		c = p.Choices[idx]
		if c >= n {
			panic(fmt.Sprintf("replay divergence at choice %d: %d of %d (%s)", idx, c, n, kind))
		}
		if p.Strict && idx < len(p.Expect) {
			e := p.Expect[idx]
			if e.Kind != kind || e.N != n || (kind == "sched" && e.Thread != en[c].id) {
				panic(fmt.Sprintf("replay divergence at choice %d: recorded %s/%d/%s, now %s/%d", idx, e.Kind, e.N, e.Thread, kind, n))
			}
		}
	} else if p.Visited != nil {
		key := s.stateKey()
		if p.Visited(key) {
			s.abort("pruned")
		}
	}
	ch := Choice{Kind: kind, N: n, Chosen: c, Self: self}
	if en != nil {
		ch.Thread = en[c].id
	}
	if os.Getenv("VS_DEBUG_PREFIX") != "" && idx <= 8 {
		ids := []string{}
		for _, t := range en {
			ids = append(ids, t.id+":"+s.opString(t.pending))
		}
		fmt.Fprintf(os.Stderr, "CHOICE idx=%d kind=%s n=%d c=%d en=%v\n", idx, kind, n, c, ids)
	}
	s.Choices = append(s.Choices, ch)
	return c
}

func (p *Prefix) PickThread(s *Sched, en []*Thread) *Thread {
	i := 0
	if len(en) > 1 {
		i = p.choose(s, len(en), "sched", en[0] == s.cur, en)
	}
	t := en[i]
	s.bookStep(t, -1, nil)
	return t
}

func (p *Prefix) PickAlt(s *Sched, n int, what string) int {
	return p.choose(s, n, what, false, nil)
}

// ChoiceIndices returns the choices of the execution that the Prefix strategy counts
// (scheduling points with >= 2 enabled threads and all branch choices), in index form.
func (s *Sched) ChoiceIndices() []int {
	r := []int{}
	for _, c := range s.Choices {
		if c.N > 1 {
			r = append(r, c.Chosen)
		}
	}
	return r
}

// ReplayChoices returns the recorded choices with N > 1 (what Prefix.Expect compares).
func (s *Sched) ReplayChoices() []Choice {
	r := []Choice{}
	for _, c := range s.Choices {
		if c.N > 1 {
			r = append(r, c)
		}
	}
	return r
}

// ScheduleString renders the schedule of the execution as a compact thread-id string.
func (s *Sched) ScheduleString(max int) string {
	var b strings.Builder
	last := ""
	n := 0
	for _, st := range s.steps {
		if st.thr.id != last {
			if n > 0 {
				b.WriteString(" ")
			}
			b.WriteString(st.thr.id)
			last = st.thr.id
			n++
			if max > 0 && n >= max {
				b.WriteString(" ...")
				break
			}
		}
	}
	return b.String()
}

// StepCount is the number of visible steps the execution performed.
func (s *Sched) StepCount() int { return len(s.steps) }

// Buffered channels, two models of the same semantics:
//   - hand-off (default): a send to a buffered channel with a thread pending at its receive
//     delivers directly, a receive from a full buffer lets a pending sender in - one step
//     instead of two. Indistinguishable for programs that only use blocking operations.
//   - pure (PureBuf): every send goes through the buffer, every receive takes from it, each a
//     step of its own thread. Needed as soon as the program POLLS a buffered channel (select with
//     default, len): a poll can observe the states the hand-off skips ("pending" in this model
//     does not mean "parked" in the Go runtime).
// The first poll of a buffered channel aborts the execution with outcome "restart:..." and the
// explorers start over in the pure model (deterministically: the model is a function of the
// program, recorded with every replay file).
var (
	PureBuf  = os.Getenv("VS_PURE_BUF") != ""
	NeedPure bool
)

// restartPure: true when the execution asked for the pure model; switches the model.
func restartPure(s *Sched) bool {
	if NeedPure && !PureBuf && len(s.Outcome) >= 8 && s.Outcome[:8] == "restart:" {
		PureBuf = true
		return true
	}
	return false
}
