//go:build verif

package vs

import (
	"crypto/sha1"
	"encoding/json"
	"fmt"
	"io/ioutil"
	"os"
	"path/filepath"
	"sort"
	"strings"
)

// File-system seam. Every call is a visible operation whose dependence is path containment;
// the real call is performed in the execution's scratch directory (the process cwd).
var (
	// CrashMode: the disk digest is recorded after every FS mutation ("killed here" is an
	// observation, not a branch) and multi-step mutations are split into their real steps.
	CrashMode bool
	// DiskDependent: every FS mutation additionally writes a global DISK object (complete
	// crash-state sets when one task is in flight).
	DiskDependent bool
	// Digests: distinct disk states seen by this process -> number of times.
	Digests = map[string]int{}
	// DigestInfo: first observation of each digest.
	DigestInfo = map[string]*CrashState{}
	// SnapDir: where the first occurrence of every distinct disk state is copied to.
	SnapDir string
	// FSHook, when set, is told about every FS call after it was performed.
	FSHook func(op string, paths []string, mutating bool, err error)
	// Cwd is the scratch directory of the execution (absolute); set by the harness.
	Cwd string
)

// CrashState describes the first time a disk state was seen.
type CrashState struct {
	ID      int      `json:"id"`
	Digest  string   `json:"digest"`
	After   string   `json:"after"`  // the FS mutation after which it was observed
	Events  []string `json:"events"` // events logged so far
	Notes   []string `json:"notes"`
	Choices []int    `json:"choices"`
	Count   int      `json:"count"`
}

type fsAcc struct {
	path    string
	write   bool
	subtree bool
}

type fsRec struct {
	step int
	acc  fsAcc
}

func canonP(p string) string {
	p = filepath.Clean(p)
	if Cwd != "" && filepath.IsAbs(p) {
		if p == Cwd {
			return "."
		}
		if strings.HasPrefix(p, Cwd+"/") {
			return p[len(Cwd)+1:]
		}
	}
	return p
}

func under(p, dir string) bool {
	return p == dir || dir == "." || strings.HasPrefix(p, dir+"/")
}

func fsConflict(a, b fsAcc) bool {
	if !a.write && !b.write {
		return false
	}
	if a.path == b.path {
		return true
	}
	if a.subtree && under(b.path, a.path) {
		return true
	}
	if b.subtree && under(a.path, b.path) {
		return true
	}
	// creating / removing an entry changes what a reader of the parent chain sees only through
	// the entry itself; parents are covered by MkdirAll writing every component
	return false
}

func fsOp(name string, accs []fsAcc) *Thread {
	s := Cur
	t := s.me()
	for i := range accs {
		accs[i].path = canonP(accs[i].path)
	}
	t.pending = &Op{kind: opFS, fs: accs, desc: name}
	s.reschedule(t, false)
	return t
}

func fsDone(t *Thread, name string, res string, mutated bool, paths []string, err error) {
	t.log("fs", name, res)
	if FSHook != nil {
		inHook++
		FSHook(name, paths, mutated, err)
		inHook--
	}
	if mutated && CrashMode {
		observeDisk(name + " " + strings.Join(paths, " "))
	}
}

// inHook > 0 while a hook of the harness runs inside an execution: map iterations of the harness
// are then not map-range sites of the program (site ordinals must not depend on what a hook
// happens to compute, e.g. a lazily cached table in the first execution only).
var inHook int

// OpFault, when set, is asked before every mkdirall / rename / removeall / remove / write / read /
// create / open of the seam; a non-nil answer is returned to the caller INSTEAD of performing the
// operation (one injected I/O error, chosen by the harness by operation index).
var OpFault func(op, path string) error

func opFault(op, path string) error {
	if OpFault == nil {
		return nil
	}
	inHook++
	defer func() { inHook-- }()
	return OpFault(op, path)
}

// RenameFault, when set, may make FSRename fail without touching the disk.
var RenameFault func(a, b string) error

// ReadFault, when set, may make a successful FSReadFile fail instead (injected I/O error).
var ReadFault func(path string) error

// CrashHook, when set, sees the disk at every crash point (after every FS mutation).
var CrashHook func(tree map[string]string, after string)

func observeDisk(after string) {
	s := Cur
	tree := ReadTree(".")
	if CrashHook != nil {
		inHook++
		CrashHook(tree, after)
		inHook--
	}
	d := digestOf(tree)
	Digests[d]++
	if DigestInfo[d] == nil {
		cs := &CrashState{ID: len(DigestInfo), Digest: d, After: after, Events: s.EventList(), Notes: s.NoteList(), Choices: s.ChoiceIndices()}
		DigestInfo[d] = cs
		if SnapDir != "" {
			copyTree(".", fmt.Sprintf("%s/%d", SnapDir, cs.ID))
		}
	}
	DigestInfo[d].Count++
}

func rd(paths ...string) []fsAcc {
	a := []fsAcc{}
	for _, p := range paths {
		a = append(a, fsAcc{path: p})
	}
	return a
}

func mut(paths ...string) []fsAcc {
	a := []fsAcc{}
	for _, p := range paths {
		a = append(a, fsAcc{path: p, write: true})
	}
	return a
}

// StatFault, when set, may make a successful FSStat answer "no such file" instead (a file system
// that lags behind: the file is there, this one look does not see it).
var StatFault func(path string) error

func FSStat(p string) (os.FileInfo, error) {
	if Cur == nil {
		return os.Stat(p)
	}
	t := fsOp("stat", rd(p))
	fi, err := os.Stat(p)
	if StatFault != nil && err == nil {
		if ferr := StatFault(p); ferr != nil {
			fi, err = nil, ferr
		}
	}
	fsDone(t, "stat", fmt.Sprint(p, err == nil), false, []string{p}, err)
	return fi, err
}

func FSLstat(p string) (os.FileInfo, error) {
	if Cur == nil {
		return os.Lstat(p)
	}
	t := fsOp("lstat", rd(p))
	fi, err := os.Lstat(p)
	fsDone(t, "lstat", fmt.Sprint(p, err == nil), false, []string{p}, err)
	return fi, err
}

func mkdirAccs(p string) []fsAcc {
	accs := []fsAcc{}
	cur := canonP(p)
	for cur != "." && cur != "/" && cur != ".." && !strings.HasSuffix(cur, "/..") {
		accs = append(accs, fsAcc{path: cur, write: true})
		cur = filepath.Dir(cur)
	}
	return accs
}

func FSMkdirAll(p string, m os.FileMode) error {
	if Cur == nil {
		return os.MkdirAll(p, m)
	}
	// every component may be created; in crash mode one component per step
	if CrashMode {
		comps := []string{}
		cur := filepath.Clean(p)
		for cur != "." && cur != "/" && cur != ".." && !strings.HasSuffix(cur, "/..") {
			if _, err := os.Stat(cur); err == nil {
				break
			}
			comps = append([]string{cur}, comps...)
			cur = filepath.Dir(cur)
		}
		if len(comps) > 1 {
			for _, c := range comps[:len(comps)-1] {
				t := fsOp("mkdir", mkdirAccs(c))
				err := os.MkdirAll(c, m)
				fsDone(t, "mkdir", fmt.Sprint(c, err == nil), true, []string{c}, err)
			}
		}
	}
	t := fsOp("mkdirall", mkdirAccs(p))
	err := opFault("mkdirall", p)
	if err == nil {
		err = os.MkdirAll(p, m)
	}
	fsDone(t, "mkdirall", fmt.Sprint(p, err == nil), true, []string{p}, err)
	return err
}

func FSRename(a, b string) error {
	if Cur == nil {
		return os.Rename(a, b)
	}
	t := fsOp("rename", []fsAcc{{path: a, write: true, subtree: true}, {path: b, write: true, subtree: true}})
	var err error
	if RenameFault != nil {
		inHook++
		err = RenameFault(a, b) // environment answer decided by the harness (e.g. EXDEV across a device boundary)
	}
	if RenameFault != nil {
		inHook--
	}
	if err == nil {
		err = opFault("rename", b)
	}
	if err == nil {
		err = os.Rename(a, b)
	}
	fsDone(t, "rename", fmt.Sprint(a, b, err == nil), true, []string{a, b}, err)
	return err
}

func FSRemoveAll(p string) error {
	if Cur == nil {
		return os.RemoveAll(p)
	}
	if CrashMode {
		// one step per removed entry, bottom-up, as rm -r does
		ents := []string{}
		filepath.Walk(p, func(q string, fi os.FileInfo, err error) error {
			if err == nil && q != p {
				ents = append(ents, q)
			}
			return nil
		})
		sort.Sort(sort.Reverse(sort.StringSlice(ents)))
		for _, e := range ents {
			t := fsOp("remove", []fsAcc{{path: e, write: true}, {path: p, write: true, subtree: true}})
			err := os.Remove(e)
			fsDone(t, "remove", fmt.Sprint(e, err == nil), true, []string{e}, err)
		}
	}
	t := fsOp("removeall", []fsAcc{{path: p, write: true, subtree: true}})
	err := opFault("removeall", p)
	if err == nil {
		err = os.RemoveAll(p)
	}
	fsDone(t, "removeall", fmt.Sprint(p, err == nil), true, []string{p}, err)
	return err
}

func FSRemove(p string) error {
	if Cur == nil {
		return os.Remove(p)
	}
	t := fsOp("remove", mut(p))
	err := opFault("remove", p)
	if err == nil {
		err = os.Remove(p)
	}
	fsDone(t, "remove", fmt.Sprint(p, err == nil), true, []string{p}, err)
	return err
}

func FSWriteFile(p string, d []byte, m os.FileMode) error {
	if Cur == nil {
		return ioutil.WriteFile(p, d, m)
	}
	if CrashMode {
		// a kill between O_TRUNC and the writes is a real disk state
		t := fsOp("write-trunc", mut(p))
		err := ioutil.WriteFile(p, nil, m)
		fsDone(t, "write-trunc", fmt.Sprint(p, err == nil), true, []string{p}, err)
		if err != nil {
			return err
		}
		if len(d) > 1 {
			t = fsOp("write-half", mut(p))
			err = ioutil.WriteFile(p, d[:len(d)/2], m)
			fsDone(t, "write-half", fmt.Sprint(p, err == nil), true, []string{p}, err)
		}
	}
	t := fsOp("write", mut(p))
	err := opFault("write", p)
	if err == nil {
		err = ioutil.WriteFile(p, d, m)
	}
	fsDone(t, "write", fmt.Sprint(p, err == nil), true, []string{p}, err)
	return err
}

func FSReadFile(p string) ([]byte, error) {
	if Cur == nil {
		return ioutil.ReadFile(p)
	}
	t := fsOp("read", rd(p))
	d, err := ioutil.ReadFile(p)
	if err == nil {
		if ferr := opFault("read", p); ferr != nil {
			d, err = nil, ferr
		}
	}
	if ReadFault != nil && err == nil {
		// environment deviation decided by the harness (a read of an existing file that fails)
		inHook++
		ferr := ReadFault(p)
		inHook--
		if ferr != nil {
			d, err = nil, ferr
		}
	}
	res := ""
	if HistHash {
		res = fmt.Sprintf("%v %x", err == nil, sha1.Sum(d))
	}
	fsDone(t, "read", p+res, false, []string{p}, err)
	return d, err
}

// FSCreate / FSOpen: the open is the visible operation; I/O on the handle is local.
func FSCreate(p string) (*os.File, error) {
	if Cur == nil {
		return os.Create(p)
	}
	t := fsOp("create", mut(p))
	var f *os.File
	err := opFault("create", p)
	if err == nil {
		f, err = os.Create(p)
	}
	fsDone(t, "create", fmt.Sprint(p, err == nil), true, []string{p}, err)
	return f, err
}

func FSOpen(p string) (*os.File, error) {
	if Cur == nil {
		return os.Open(p)
	}
	t := fsOp("open", rd(p))
	var f *os.File
	err := opFault("open", p)
	if err == nil {
		f, err = os.Open(p)
	}
	fsDone(t, "open", fmt.Sprint(p, err == nil), false, []string{p}, err)
	return f, err
}

// FSOpenFile: os.OpenFile with explicit flags - a mutation of the path when it may create,
// truncate or write, a read otherwise; like FSCreate / FSOpen the open is the visible operation.
func FSOpenFile(p string, flag int, perm os.FileMode) (*os.File, error) {
	if Cur == nil {
		return os.OpenFile(p, flag, perm)
	}
	if flag&(os.O_WRONLY|os.O_RDWR|os.O_CREATE|os.O_TRUNC|os.O_APPEND) == 0 {
		t := fsOp("open", rd(p))
		var f *os.File
		err := opFault("open", p)
		if err == nil {
			f, err = os.OpenFile(p, flag, perm)
		}
		fsDone(t, "open", fmt.Sprint(p, err == nil), false, []string{p}, err)
		return f, err
	}
	t := fsOp("create", mut(p))
	var f *os.File
	err := opFault("create", p)
	if err == nil {
		f, err = os.OpenFile(p, flag, perm)
	}
	fsDone(t, "create", fmt.Sprint(p, flag, err == nil), true, []string{p}, err)
	return f, err
}

// FSTempFile: deterministic name per (execution, counter) below TmpRoot.
var TmpRoot = os.TempDir()

func FSTempFile(dir, pattern string) (*os.File, error) {
	if Cur == nil {
		return ioutil.TempFile(dir, pattern)
	}
	s := Cur
	if dir == "" {
		dir = TmpRoot
	}
	s.tmpCount++
	p := filepath.Join(dir, fmt.Sprintf("%s%d", pattern, s.tmpCount))
	t := fsOp("tempfile", mut(p))
	f, err := os.Create(p)
	fsDone(t, "tempfile", fmt.Sprint(p, err == nil), true, []string{p}, err)
	return f, err
}

func FSWalk(root string, fn filepath.WalkFunc) error {
	if Cur == nil {
		return filepath.Walk(root, fn)
	}
	t := fsOp("walk", []fsAcc{{path: root, subtree: true}})
	// materialise the listing first (one atomic read), then call fn, which may mutate via FS ops
	type ent struct {
		p  string
		fi os.FileInfo
	}
	ents := []ent{}
	var rootErr error
	filepath.Walk(root, func(p string, fi os.FileInfo, err error) error {
		if err != nil {
			if p == root {
				rootErr = err
			}
			return nil
		}
		ents = append(ents, ent{p, fi})
		return nil
	})
	names := []string{}
	for _, e := range ents {
		names = append(names, e.p)
	}
	fsDone(t, "walk", root+":"+strings.Join(names, ","), false, []string{root}, nil)
	if rootErr != nil {
		return fn(root, nil, rootErr)
	}
	for _, e := range ents {
		if err := fn(e.p, e.fi, nil); err != nil {
			if err == filepath.SkipDir {
				continue
			}
			return err
		}
	}
	return nil
}

func FSGlob(pattern string) ([]string, error) {
	if Cur == nil {
		return filepath.Glob(pattern)
	}
	root := pattern
	if i := strings.IndexAny(root, "*?["); i >= 0 {
		root = filepath.Dir(root[:i] + "x")
	}
	t := fsOp("glob", []fsAcc{{path: root, subtree: true}})
	m, err := filepath.Glob(pattern)
	fsDone(t, "glob", pattern+":"+strings.Join(m, ","), false, []string{pattern}, err)
	return m, err
}

// Snapshot is a visible read of the whole scratch directory (what a user program sees
// right after Run returned).
func Snapshot() map[string]string {
	if Cur == nil {
		return ReadTree(".")
	}
	t := fsOp("snapshot", []fsAcc{{path: ".", subtree: true}})
	m := ReadTree(".")
	fsDone(t, "snapshot", "", false, []string{"."}, nil)
	return m
}

// ReadTree returns path -> content ("<dir>" for directories, "<fifo>" for named pipes) of a
// tree, log/ excluded. Not a visible operation.
func ReadTree(root string) map[string]string {
	m := map[string]string{}
	filepath.Walk(root, func(p string, fi os.FileInfo, err error) error {
		if err != nil {
			return nil
		}
		rel, _ := filepath.Rel(root, p)
		if rel == "." || rel == "log" || strings.HasPrefix(rel, "log/") {
			return nil
		}
		switch {
		case fi.IsDir():
			m[rel] = "<dir>"
		case fi.Mode()&os.ModeNamedPipe != 0:
			m[rel] = "<fifo>"
		default:
			d, _ := ioutil.ReadFile(p)
			m[rel] = string(d)
		}
		return nil
	})
	return m
}

// Digest of a directory: paths, types, content hashes (log/ excluded). Audit files are
// classified empty / partial / complete, because their IDs and times differ between runs.
func Digest(root string) string { return digestOf(ReadTree(root)) }

func digestOf(tree map[string]string) string {
	parts := make([]string, 0, len(tree))
	for p, c := range tree {
		switch {
		case c == "<dir>":
			parts = append(parts, "d:"+p)
		case c == "<fifo>":
			parts = append(parts, "p:"+p)
		case strings.HasSuffix(p, ".audit.json") || strings.HasSuffix(p, ".audit.json.tmp"):
			cls := "complete"
			if len(c) == 0 {
				cls = "empty"
			} else if !json.Valid([]byte(c)) {
				cls = "partial"
			}
			parts = append(parts, fmt.Sprintf("f:%s:audit(%s)", p, cls))
		default:
			parts = append(parts, fmt.Sprintf("f:%s:%x", p, sha1.Sum([]byte(c))))
		}
	}
	sort.Strings(parts)
	return strings.Join(parts, "|")
}

func copyTree(src, dst string) {
	filepath.Walk(src, func(p string, fi os.FileInfo, err error) error {
		if err != nil {
			return nil
		}
		rel, _ := filepath.Rel(src, p)
		if rel == "log" || strings.HasPrefix(rel, "log/") {
			return nil
		}
		if fi.IsDir() {
			os.MkdirAll(filepath.Join(dst, rel), 0777)
		} else if fi.Mode()&os.ModeNamedPipe != 0 {
			os.MkdirAll(filepath.Dir(filepath.Join(dst, rel)), 0777)
			mkfifo(filepath.Join(dst, rel))
		} else {
			d, _ := ioutil.ReadFile(p)
			os.MkdirAll(filepath.Dir(filepath.Join(dst, rel)), 0777)
			ioutil.WriteFile(filepath.Join(dst, rel), d, 0644)
		}
		return nil
	})
}

// CopyTree copies a directory tree (regular files, directories, FIFOs).
func CopyTree(src, dst string) { copyTree(src, dst) }
