//go:build verif

package vs

import (
	"fmt"
	"reflect"
)

// Mutex replaces sync.Mutex; the zero value is an unlocked mutex.
// A package-level Mutex outlives one execution: own is the execution it was last used in, and a
// mutex met in another execution starts again from the zero value (unlocked, unregistered) - a
// holder left behind by an execution that ended in a deadlock or an exit must not leak.
type Mutex struct {
	holder *Thread
	lbl    string
	last   string
	reg    bool
	own    *Sched
}

func (m *Mutex) keyString(s *Sched) string {
	h := "-"
	if m.holder != nil {
		h = m.holder.id
	}
	return fmt.Sprintf("%s:%s:%s", m.lbl, h, m.last)
}

func (m *Mutex) Lock() {
	s := Cur
	t := s.me()
	if m.own != s {
		*m = Mutex{own: s}
	}
	if !m.reg {
		m.reg = true
		m.lbl = s.newLabel("m")
		s.objs = append(s.objs, m)
	}
	t.pending = &Op{kind: opLock, mu: m}
	s.reschedule(t, false)
	if m.holder != nil {
		panic("vs: lock scheduled while held")
	}
	m.holder = t
	t.log("lock", m.lbl, m.last)
}

// Unlock is not a scheduling point: releasing only enables others, and the effect becomes
// visible at the releasing thread's next visible operation.
func (m *Mutex) Unlock() {
	s := Cur
	t := s.me()
	if m.holder == nil {
		panic("sync: unlock of unlocked mutex")
	}
	m.holder = nil
	if RaceMode {
		// release publishes the releasing thread's sync clock (incl. the critical section)
		s.syncObjClk[muLabel(m)] = append([]int{}, s.syncClockOf(t)...)
	}
	m.last = fmt.Sprintf("%s#%d", t.id, t.nops)
	t.log("unlock", m.lbl)
}

// WaitGroup replaces sync.WaitGroup.
type WaitGroup struct {
	n   int
	lbl string
	reg bool
	own *Sched
}

func (w *WaitGroup) keyString(s *Sched) string { return fmt.Sprintf("%s:%d", w.lbl, w.n) }

func (w *WaitGroup) register(s *Sched) {
	if w.own != s {
		*w = WaitGroup{own: s}
	}
	if !w.reg {
		w.reg = true
		w.lbl = s.newLabel("w")
		s.objs = append(s.objs, w)
	}
}

func (w *WaitGroup) Add(d int) {
	s := Cur
	t := s.me()
	w.register(s)
	t.pending = &Op{kind: opWg, wg: w}
	s.reschedule(t, false)
	w.n += d
	if w.n < 0 {
		panic("sync: negative WaitGroup counter")
	}
	if RaceMode && d < 0 {
		l := wgLabel(w)
		s.syncObjClk[l] = joinClk(append([]int{}, s.syncObjClk[l]...), s.syncClockOf(t))
	}
	t.log("wgadd", w.lbl, fmt.Sprint(d))
}

func (w *WaitGroup) Done() { w.Add(-1) }

func (w *WaitGroup) Wait() {
	s := Cur
	t := s.me()
	w.register(s)
	t.pending = &Op{kind: opWgWait, wg: w}
	s.reschedule(t, false)
	t.log("wgwait", w.lbl)
}


// ---------------------------------------------------------------- Once / RWMutex / atomics
//
// Built from the validated primitives (Mutex), so the dependency table needs no new entries.

// Once replaces sync.Once: callers block until the first call's f has returned.
type Once struct {
	mu   Mutex
	done bool
	own  *Sched
}

func (o *Once) Do(f func()) {
	if o.own != Cur {
		*o = Once{own: Cur} // a package-level Once starts undone in every execution
	}
	o.mu.Lock()
	if o.done {
		o.mu.Unlock()
		return
	}
	defer o.mu.Unlock()
	defer func() { o.done = true }()
	f()
}

// RWMutex replaces sync.RWMutex (readers-preference construction from two mutexes: readers run
// concurrently, a writer excludes everybody). Go's RWMutex additionally makes a WAITING writer
// block new readers; deadlocks that need that rule (recursive read locking around a waiting
// writer) are not modelled.
type RWMutex struct {
	w, r    Mutex
	readers int
	own     *Sched
}

func (m *RWMutex) fresh() {
	if m.own != Cur {
		*m = RWMutex{own: Cur}
	}
}

func (m *RWMutex) Lock()   { m.fresh(); m.w.Lock() }
func (m *RWMutex) Unlock() { m.w.Unlock() }
func (m *RWMutex) RLock() {
	m.fresh()
	m.r.Lock()
	m.readers++
	if m.readers == 1 {
		m.w.Lock()
	}
	m.r.Unlock()
}
func (m *RWMutex) RUnlock() {
	m.r.Lock()
	m.readers--
	if m.readers == 0 {
		m.w.Unlock()
	}
	m.r.Unlock()
}

// atomicDo: an operation of sync/atomic on the variable at p is a scheduling point and
// synchronises with every other atomic operation on that variable (a mutex per address).
func atomicDo(p interface{}, f func()) {
	s := Cur
	if s == nil {
		f()
		return
	}
	if s.atom == nil {
		s.atom = map[uintptr]*Mutex{}
	}
	k := reflect.ValueOf(p).Pointer()
	m := s.atom[k]
	if m == nil {
		m = &Mutex{}
		s.atom[k] = m
		s.keep = append(s.keep, p)
	}
	m.Lock()
	f()
	m.Unlock()
}

type atomicInt interface {
	~int32 | ~int64 | ~uint32 | ~uint64 | ~uintptr
}

func AtomicAdd[T atomicInt](p *T, d T) (r T) { atomicDo(p, func() { *p += d; r = *p }); return }
func AtomicLoad[T any](p *T) (r T)           { atomicDo(p, func() { r = *p }); return }
func AtomicStore[T any](p *T, v T)           { atomicDo(p, func() { *p = v }) }
func AtomicSwap[T any](p *T, v T) (old T)    { atomicDo(p, func() { old = *p; *p = v }); return }
func AtomicCAS[T comparable](p *T, old, nw T) (ok bool) {
	atomicDo(p, func() {
		if *p == old {
			*p = nw
			ok = true
		}
	})
	return
}

// typed atomics (sync/atomic.Int32 ...)
type AtomicNum[T atomicInt] struct{ v T }

func (a *AtomicNum[T]) Load() T                       { return AtomicLoad(&a.v) }
func (a *AtomicNum[T]) Store(v T)                     { AtomicStore(&a.v, v) }
func (a *AtomicNum[T]) Add(d T) T                     { return AtomicAdd(&a.v, d) }
func (a *AtomicNum[T]) Swap(v T) T                    { return AtomicSwap(&a.v, v) }
func (a *AtomicNum[T]) CompareAndSwap(old, nw T) bool { return AtomicCAS(&a.v, old, nw) }

type AtomicInt32 = AtomicNum[int32]
type AtomicInt64 = AtomicNum[int64]
type AtomicUint32 = AtomicNum[uint32]
type AtomicUint64 = AtomicNum[uint64]
type AtomicUintptr = AtomicNum[uintptr]

type AtomicBool struct{ v bool }

func (a *AtomicBool) Load() bool                       { return AtomicLoad(&a.v) }
func (a *AtomicBool) Store(v bool)                     { AtomicStore(&a.v, v) }
func (a *AtomicBool) Swap(v bool) bool                 { return AtomicSwap(&a.v, v) }
func (a *AtomicBool) CompareAndSwap(old, nw bool) bool { return AtomicCAS(&a.v, old, nw) }

type AtomicValue struct{ v interface{} }

func (a *AtomicValue) Load() interface{}             { return AtomicLoad(&a.v) }
func (a *AtomicValue) Store(v interface{})           { AtomicStore(&a.v, v) }
func (a *AtomicValue) Swap(v interface{}) interface{} { return AtomicSwap(&a.v, v) }
func (a *AtomicValue) CompareAndSwap(old, nw interface{}) bool {
	return AtomicCAS(&a.v, old, nw)
}

type AtomicPointer[T any] struct{ v *T }

func (a *AtomicPointer[T]) Load() *T                       { return AtomicLoad(&a.v) }
func (a *AtomicPointer[T]) Store(v *T)                     { AtomicStore(&a.v, v) }
func (a *AtomicPointer[T]) Swap(v *T) *T                   { return AtomicSwap(&a.v, v) }
func (a *AtomicPointer[T]) CompareAndSwap(old, nw *T) bool { return AtomicCAS(&a.v, old, nw) }
