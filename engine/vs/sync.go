//go:build verif

package vs

import "fmt"

// Mutex replaces sync.Mutex; the zero value is an unlocked mutex.
type Mutex struct {
	holder *Thread
	lbl    string
	last   string
	reg    bool
}

func (m *Mutex) keyString(s *Sched) string {
	h := "-"
	if m.holder != nil {
		h = m.holder.id
	}
	return fmt.Sprintf("%s:%s:%s", m.lbl, h, m.last)
}

func (m *Mutex) Lock() {
	s := Cur
	t := s.me()
	if !m.reg {
		m.reg = true
		m.lbl = s.newLabel("m")
		s.objs = append(s.objs, m)
	}
	t.pending = &Op{kind: opLock, mu: m}
	s.reschedule(t, false)
	if m.holder != nil {
		panic("vs: lock scheduled while held")
	}
	m.holder = t
	t.log("lock", m.lbl, m.last)
}

// Unlock is not a scheduling point: releasing only enables others, and the effect becomes
// visible at the releasing thread's next visible operation.
func (m *Mutex) Unlock() {
	s := Cur
	t := s.me()
	if m.holder == nil {
		panic("sync: unlock of unlocked mutex")
	}
	m.holder = nil
	if RaceMode {
		// release publishes the releasing thread's sync clock (incl. the critical section)
		s.syncObjClk[muLabel(m)] = append([]int{}, s.syncClockOf(t)...)
	}
	m.last = fmt.Sprintf("%s#%d", t.id, t.nops)
	t.log("unlock", m.lbl)
}

// WaitGroup replaces sync.WaitGroup.
type WaitGroup struct {
	n   int
	lbl string
	reg bool
}

func (w *WaitGroup) keyString(s *Sched) string { return fmt.Sprintf("%s:%d", w.lbl, w.n) }

func (w *WaitGroup) register(s *Sched) {
	if !w.reg {
		w.reg = true
		w.lbl = s.newLabel("w")
		s.objs = append(s.objs, w)
	}
}

func (w *WaitGroup) Add(d int) {
	s := Cur
	t := s.me()
	w.register(s)
	t.pending = &Op{kind: opWg, wg: w}
	s.reschedule(t, false)
	w.n += d
	if w.n < 0 {
		panic("sync: negative WaitGroup counter")
	}
	if RaceMode && d < 0 {
		l := wgLabel(w)
		s.syncObjClk[l] = joinClk(append([]int{}, s.syncObjClk[l]...), s.syncClockOf(t))
	}
	t.log("wgadd", w.lbl, fmt.Sprint(d))
}

func (w *WaitGroup) Done() { w.Add(-1) }

func (w *WaitGroup) Wait() {
	s := Cur
	t := s.me()
	w.register(s)
	t.pending = &Op{kind: opWgWait, wg: w}
	s.reschedule(t, false)
	t.log("wgwait", w.lbl)
}
