//go:build verif

package vs

import (
	"sort"
	"fmt"
	"reflect"
	"runtime"
	"strings"
)

// RaceMode: instrumented memory accesses are visible operations and are checked against a
// happens-before relation built from synchronisation edges only.
var RaceMode bool

// Races: "siteA <-> siteB" -> count, accumulated over the executions of this process.
var Races = map[string]int{}

// RaceInfo: first schedule on which each race was seen.
var RaceInfo = map[string][]Choice{}

type memLast struct {
	thr   *Thread
	clk   []int
	write bool
	site  string
}

// site: the function (not the line: instrumented files have other line numbers than the
// repository) of the first caller outside the shim.
func site() string {
	pc := make([]uintptr, 12)
	n := runtime.Callers(3, pc)
	frames := runtime.CallersFrames(pc[:n])
	for {
		f, more := frames.Next()
		if f.Function != "" && !strings.HasPrefix(f.Function, "vs.") && !strings.Contains(f.File, "/vs/") {
			fn := f.Function
			if i := strings.LastIndex(fn, "/"); i >= 0 {
				fn = fn[i+1:]
			}
			return fn
		}
		if !more {
			break
		}
	}
	return "?"
}

func rw(w bool) string {
	if w {
		return "[write]"
	}
	return "[read]"
}

func memAccessLabel(lbl string, write bool) {
	s := Cur
	t := s.me()
	t.pending = &Op{kind: opMem, obj: lbl, memW: write}
	s.reschedule(t, false)
	sc := s.syncClockOf(t)
	st := site()
	for _, l := range s.memHist[lbl] {
		if l.thr != t && (l.write || write) && !leq(l.clk, sc) {
			a, b := l.site+rw(l.write), st+rw(write)
			if a > b {
				a, b = b, a
			}
			k := a + " <-> " + b
			if Races[k] == 0 {
				RaceInfo[k] = s.ReplayChoices()
			}
			Races[k]++
		}
	}
	if write {
		s.memHist[lbl] = []memLast{{t, append([]int{}, sc...), true, st}}
	} else {
		s.memHist[lbl] = append(s.memHist[lbl], memLast{t, append([]int{}, sc...), false, st})
	}
	t.log("mem", lbl, fmt.Sprint(write))
}

func memAccess(m interface{}, write bool) {
	if !RaceMode || Cur == nil {
		return
	}
	rv := reflect.ValueOf(m)
	switch rv.Kind() {
	case reflect.Map, reflect.Ptr, reflect.Slice:
		if rv.IsNil() {
			return
		}
	}
	memAccessLabel("mem:"+Cur.valLabel(m), write)
}

// DeepRead: v is about to be serialised by reflection (encoding/json): a read of every map held
// in an exported field of the struct v (points to), and - one level further - of the maps of the
// structs those maps point to (a record and the records nested in it). Returns v.
func DeepRead[T any](v T) T {
	if !RaceMode || Cur == nil {
		return v
	}
	deepRead(reflect.ValueOf(v), 1)
	return v
}

func deepRead(rv reflect.Value, more int) {
	for rv.Kind() == reflect.Ptr || rv.Kind() == reflect.Interface {
		if rv.IsNil() {
			return
		}
		rv = rv.Elem()
	}
	if rv.Kind() == reflect.Map {
		memAccess(rv.Interface(), false)
		return
	}
	if rv.Kind() != reflect.Struct {
		return
	}
	for i := 0; i < rv.NumField(); i++ {
		f := rv.Field(i)
		if f.Kind() != reflect.Map || f.IsNil() || !rv.Type().Field(i).IsExported() {
			continue
		}
		memAccess(f.Interface(), false)
		if more > 0 && f.Type().Elem().Kind() == reflect.Ptr && f.Type().Elem().Elem().Kind() == reflect.Struct && f.Type().Key().Kind() == reflect.String {
			keys := []string{}
			for _, k := range f.MapKeys() {
				keys = append(keys, k.String())
			}
			sort.Strings(keys)
			for _, k := range keys {
				deepRead(f.MapIndex(reflect.ValueOf(k).Convert(f.Type().Key())), more-1)
			}
		}
	}
}

// R / W: explicit read / write of the location p points to (field accesses).
func R(p interface{}) { memAccess(p, false) }
func W(p interface{}) { memAccess(p, true) }

func MapGet[K comparable, V any](m map[K]V, k K) V { memAccess(m, false); return m[k] }
func MapGet2[K comparable, V any](m map[K]V, k K) (V, bool) {
	memAccess(m, false)
	v, ok := m[k]
	return v, ok
}
func MapSet[K comparable, V any](m map[K]V, k K, v V) { memAccess(m, true); m[k] = v }
func MapDel[K comparable, V any](m map[K]V, k K)      { memAccess(m, true); delete(m, k) }
func MapLen[K comparable, V any](m map[K]V) int       { memAccess(m, false); return len(m) }
func MapRead[K comparable, V any](m map[K]V) map[K]V  { memAccess(m, false); return m }

// MapW marks a write access to the map and returns it (used as `vs.MapW(m)[k] = v`).
func MapW[K comparable, V any](m map[K]V) map[K]V { memAccess(m, true); return m }

// RQ / WQ: quiet access to a package-level variable: checked against the happens-before relation
// like R / W but NOT a scheduling point (the synchronisation clocks only change at visible
// operations, so the verdict does not depend on where between them the access is placed).
// Only the last read of each thread is kept (its clock dominates the earlier ones).
func memQuiet(p interface{}, write bool) {
	if !RaceMode || Cur == nil {
		return
	}
	s := Cur
	t := s.me()
	lbl := "gmem:" + s.valLabel(p)
	sc := s.syncClockOf(t)
	st := ""
	hist := s.memHist[lbl]
	for _, l := range hist {
		if l.thr != t && (l.write || write) && !leq(l.clk, sc) {
			if st == "" {
				st = site()
			}
			a, b := l.site+rw(l.write), st+rw(write)
			if a > b {
				a, b = b, a
			}
			k := a + " <-> " + b
			if Races[k] == 0 {
				RaceInfo[k] = s.ReplayChoices()
			}
			Races[k]++
		}
	}
	// the access lies between this thread's last visible operation and its next one: it is ordered
	// before what the NEXT operation is ordered before, hence own component + 1 in the stored clock
	stored := append([]int{}, sc...)
	ti := s.tidx[t]
	for len(stored) <= ti {
		stored = append(stored, 0)
	}
	stored[ti]++
	if write {
		s.memHist[lbl] = []memLast{{t, stored, true, site()}}
		return
	}
	for i := range hist {
		if hist[i].thr == t && !hist[i].write {
			hist[i].clk = stored
			return
		}
	}
	s.memHist[lbl] = append(hist, memLast{t, stored, false, site()})
}

func RQ(p interface{}) { memQuiet(p, false) }
func WQ(p interface{}) { memQuiet(p, true) }
