module gocorpus

go 1.21

require vs v0.0.0

replace vs => ../vs
