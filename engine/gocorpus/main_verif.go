//go:build verif

package main

import (
	"encoding/json"
	"fmt"
	"os"
	"time"

	"vs"
)

// instrumented side: enumerate ALL outcomes of every program (DPOR + sleep sets; map order:
// every variant of every range site) and print them as JSON.
func main() {
	all := map[string][]string{}
	for _, p := range programs {
		set := map[string]bool{}
		for v := -1; v < 6; v++ {
			vs.ForceAll = v
			vs.ExploreDPOR(nil, func() { vs.Note("result:" + p.run()) }, func(s *vs.Sched) bool {
				k := s.Outcome
				for _, n := range s.NoteList() {
					k += "|" + n
				}
				set[k] = true
				return true
			}, time.Now().Add(60*time.Second))
		}
		for k := range set {
			all[p.name] = append(all[p.name], k)
		}
	}
	b, _ := json.Marshal(all)
	os.Stdout.Write(b)
	fmt.Println()
}
