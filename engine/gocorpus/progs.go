// Package main: tiny concurrent programs in ORDINARY Go (chan, go, select, sync). The same
// source is (a) rewritten by vinstr and explored exhaustively under the controlled runtime and
// (b) compiled as it stands and run many times under the real Go runtime; every native outcome
// must be one of the explored outcomes (DESIGN.md 2.4 item 1: shim + rewriter vs Go runtime).
package main

import (
	"fmt"
	"sort"
	"strings"
	"sync"
)

type prog struct {
	name string
	run  func() string
}

func sorted(xs ...string) string { sort.Strings(xs); return strings.Join(xs, ",") }

var programs = []prog{
	{"two-senders-unbuffered", func() string {
		c := make(chan int)
		go func() { c <- 1 }()
		go func() { c <- 2 }()
		a, b := <-c, <-c
		return fmt.Sprint(a, b)
	}},
	{"buffered-fifo", func() string {
		c := make(chan int, 2)
		done := make(chan bool)
		go func() { c <- 1; c <- 2; c <- 3; close(c) }()
		o := ""
		go func() {
			for v := range c {
				o += fmt.Sprint(v)
			}
			done <- true
		}()
		<-done
		return o
	}},
	{"select-two-ready", func() string {
		a, b := make(chan int, 1), make(chan int, 1)
		a <- 1
		b <- 2
		o := ""
		for i := 0; i < 2; i++ {
			select {
			case v := <-a:
				o += fmt.Sprint("a", v)
			case v := <-b:
				o += fmt.Sprint("b", v)
			}
		}
		return o
	}},
	{"close-vs-range-two-consumers", func() string {
		c := make(chan int, 1)
		res := make(chan string, 2)
		go func() { c <- 1; c <- 2; close(c) }()
		for k := 0; k < 2; k++ {
			k := k
			go func() {
				o := ""
				for v := range c {
					o += fmt.Sprint(v)
				}
				res <- fmt.Sprint(k, "=", o)
			}()
		}
		return sorted(<-res, <-res)
	}},
	{"mutex-counter-order", func() string {
		var m sync.Mutex
		n := 0
		done := make(chan int)
		for i := 1; i <= 3; i++ {
			i := i
			go func() {
				m.Lock()
				n = n*10 + i
				m.Unlock()
				done <- i
			}()
		}
		o := ""
		for i := 0; i < 3; i++ {
			o += fmt.Sprint(<-done)
		}
		return fmt.Sprint(n, "/", o)
	}},
	{"waitgroup", func() string {
		var wg sync.WaitGroup
		c := make(chan int, 3)
		for i := 0; i < 3; i++ {
			i := i
			wg.Add(1)
			go func() { c <- i; wg.Done() }()
		}
		wg.Wait()
		return sorted(fmt.Sprint(<-c), fmt.Sprint(<-c), fmt.Sprint(<-c))
	}},
	{"nil-channel-in-select", func() string {
		var n chan int
		c := make(chan int)
		go func() { c <- 7 }()
		select {
		case v := <-n:
			return fmt.Sprint("nil", v)
		case v := <-c:
			return fmt.Sprint("c", v)
		}
	}},
	{"recv-from-closed", func() string {
		c := make(chan int, 1)
		c <- 5
		close(c)
		a, ok1 := <-c
		b, ok2 := <-c
		return fmt.Sprint(a, ok1, b, ok2)
	}},
	{"try-send-default", func() string {
		tok := make(chan int, 1)
		res := make(chan string, 2)
		for i := 0; i < 2; i++ {
			i := i
			go func() {
				select {
				case tok <- i:
					<-tok
					res <- fmt.Sprint(i, "+")
				default:
					res <- fmt.Sprint(i, "-")
				}
			}()
		}
		return sorted(<-res, <-res)
	}},
	{"run-loop-shape", func() string {
		tasks := make(chan chan int)
		out := make(chan int, 1)
		go func() {
			for i := 0; i < 2; i++ {
				d := make(chan int)
				i := i
				go func() { d <- i }()
				tasks <- d
			}
			close(tasks)
		}()
		go func() {
			q := []chan int{}
			t := tasks
			for t != nil || len(q) > 0 {
				var head chan int
				if len(q) > 0 {
					head = q[0]
				}
				select {
				case d, ok := <-t:
					if !ok {
						t = nil
					} else {
						q = append(q, d)
					}
				case v := <-head:
					q = q[1:]
					out <- v
				}
			}
			close(out)
		}()
		o := ""
		for v := range out {
			o += fmt.Sprint(v)
		}
		return o
	}},
	{"token-deadlock", func() string {
		tok := make(chan int, 2)
		done := make(chan int, 2)
		for i := 0; i < 2; i++ {
			i := i
			go func() { tok <- 1; tok <- 1; <-tok; <-tok; done <- i }()
		}
		<-done
		<-done
		return "ok"
	}},
	{"map-range-order", func() string {
		m := map[string]int{"a": 1, "b": 2, "c": 3}
		s := 0
		for _, v := range m {
			s = s*10 + v
		}
		return fmt.Sprint(s)
	}},
}
