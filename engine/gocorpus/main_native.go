//go:build !verif

package main

import (
	"fmt"
	"os"
)

// native side: `gocorpus-native <program>` runs ONE program once under the real runtime and
// prints its outcome; a deadlock ends the process with Go's "all goroutines are asleep".
func main() {
	for _, p := range programs {
		if p.name == os.Args[1] {
			fmt.Println("|result:" + p.run())
			return
		}
	}
	os.Exit(3)
}
