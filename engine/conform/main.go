//go:build verif

// conform: the reduced explorer (DPOR + sleep sets) must agree with the unreduced reference
// explorer on a corpus of tiny programs covering the shapes scipipe uses (DESIGN.md 2.4(0)).
package main

import (
	"encoding/json"
	"flag"
	"fmt"
	"os"
	"sort"
	"strings"
	"time"

	"vs"
)

var (
	pkgMu    vs.Mutex
	pkgOnce  vs.Once
	pkgFirst int
)

type prog struct {
	name string
	body func()
	want string // "" | "deadlock-possible" | "no-deadlock"
}

func note(a ...interface{}) { vs.Note(fmt.Sprint(a...)) }

var corpus = []prog{
	{"two-senders-unbuffered", func() {
		c := vs.NewChan[int](0)
		vs.Go(func() { c.Send(1) })
		vs.Go(func() { c.Send(2) })
		a := c.Recv()
		b := c.Recv()
		note("got", a, b)
	}, "no-deadlock"},
	{"select-two-chans", func() {
		c1 := vs.NewChan[int](1)
		c2 := vs.NewChan[int](1)
		vs.Go(func() { c1.Send(1); c1.Send(3) })
		vs.Go(func() { c2.Send(2) })
		for i := 0; i < 3; i++ {
			x := vs.Case(c1)
			y := vs.Case(c2)
			switch vs.Select(x, y) {
			case 0:
				note("c1:", x.V)
			case 1:
				note("c2:", y.V)
			}
		}
	}, "no-deadlock"},
	{"lock-order-vs-send-order", func() {
		var m vs.Mutex
		n := 0
		done := vs.NewChan[int](0)
		for i := 0; i < 3; i++ {
			i := i
			vs.Go(func() {
				m.Lock()
				n = n*10 + i + 1
				m.Unlock()
				done.Send(i + 1)
			})
		}
		o := ""
		for i := 0; i < 3; i++ {
			o += fmt.Sprint(done.Recv())
		}
		note("n=", n, " done=", o)
	}, "no-deadlock"},
	{"close-vs-range-two-consumers", func() {
		c := vs.NewChan[int](1)
		res := vs.NewChan[string](2)
		vs.Go(func() { c.Send(1); c.Send(2); c.Close() })
		for k := 0; k < 2; k++ {
			k := k
			vs.Go(func() {
				o := ""
				for v, ok := c.Recv2(); ok; v, ok = c.Recv2() {
					o += fmt.Sprint(v)
				}
				res.Send(fmt.Sprint(k, "=", o))
			})
		}
		a, b := res.Recv(), res.Recv()
		if a > b {
			a, b = b, a
		}
		note(a + " " + b)
	}, "no-deadlock"},
	{"process-run-loop", func() {
		tasks := vs.NewChan[*vs.Chan[int]](0)
		out := vs.NewChan[int](1)
		vs.Go(func() { // createTasks
			for i := 0; i < 2; i++ {
				d := vs.NewChan[int](0)
				i := i
				vs.Go(func() { vs.Event(fmt.Sprint("run", i)); d.Send(i) })
				tasks.Send(d)
			}
			tasks.Close()
		})
		vs.Go(func() { // run loop
			q := []*vs.Chan[int]{}
			t := tasks
			for t != nil || len(q) > 0 {
				c0 := vs.Case(t)
				var head *vs.Chan[int]
				if len(q) > 0 {
					head = q[0]
				}
				c1 := vs.Case(head)
				switch vs.Select(c0, c1) {
				case 0:
					if !c0.Ok {
						t = nil
					} else {
						q = append(q, c0.V)
					}
				case 1:
					q = q[1:]
					out.Send(c1.V)
				}
			}
			out.Close()
		})
		o := ""
		for v, ok := out.Recv2(); ok; v, ok = out.Recv2() {
			o += fmt.Sprint(v)
		}
		note("out=" + o)
	}, "no-deadlock"},
	{"slots-2-1-1-on-2-tokens", func() {
		tok := vs.NewChan[struct{}](2)
		var m vs.Mutex
		done := vs.NewChan[int](3)
		for i, cores := range []int{2, 1, 1} {
			i, cores := i, cores
			vs.Go(func() {
				m.Lock()
				for k := 0; k < cores; k++ {
					tok.Send(struct{}{})
				}
				m.Unlock()
				vs.Event(fmt.Sprint("s", i))
				vs.Event(fmt.Sprint("e", i))
				for k := 0; k < cores; k++ {
					tok.Recv()
				}
				done.Send(i)
			})
		}
		for i := 0; i < 3; i++ {
			done.Recv()
		}
	}, "no-deadlock"},
	{"slots-no-mutex-deadlock", func() {
		tok := vs.NewChan[struct{}](2)
		done := vs.NewChan[int](2)
		for i := 0; i < 2; i++ {
			i := i
			vs.Go(func() {
				tok.Send(struct{}{})
				tok.Send(struct{}{})
				tok.Recv()
				tok.Recv()
				done.Send(i)
			})
		}
		done.Recv()
		done.Recv()
	}, "deadlock-possible"},
	{"main-returns-early", func() {
		d := vs.NewChan[int](0)
		vs.Go(func() { vs.Event("a1"); vs.Event("a2"); d.Send(1) })
		vs.Go(func() { vs.Event("b1"); vs.Event("b2") })
		vs.Go(func() { var m vs.Mutex; m.Lock(); vs.Event("c1"); m.Unlock() })
		d.Recv()
		vs.Event("RET")
	}, "no-deadlock"},
	{"competing-receivers-unbuffered", func() {
		c := vs.NewChan[int](0)
		res := vs.NewChan[string](2)
		for k := 0; k < 2; k++ {
			k := k
			vs.Go(func() { res.Send(fmt.Sprint(k, ":", c.Recv())) })
		}
		c.Send(7)
		c.Send(8)
		a, b := res.Recv(), res.Recv()
		if a > b {
			a, b = b, a
		}
		note(a, b)
	}, "no-deadlock"},
	{"waitgroup-senders", func() {
		var wg vs.WaitGroup
		c := vs.NewChan[int](3)
		for i := 0; i < 2; i++ {
			i := i
			wg.Add(1)
			vs.Go(func() { c.Send(i); vs.Event(fmt.Sprint("s", i)); wg.Done() })
		}
		wg.Wait()
		vs.Event("W")
		note(c.Recv(), c.Recv())
	}, "no-deadlock"},
	{"select-default-poll", func() {
		c := vs.NewChan[int](1)
		vs.Go(func() { c.Send(5) })
		x := vs.Case(c)
		if vs.SelectDefault(x) == 0 {
			note("got", x.V)
		} else {
			note("empty")
		}
	}, "no-deadlock"},
	{"fan-in-two-closers", func() {
		// the CloseConnection shape: last closer closes the channel
		c := vs.NewChan[int](1)
		var m vs.Mutex
		remaining := 2
		for i := 0; i < 2; i++ {
			i := i
			vs.Go(func() {
				c.Send(i)
				m.Lock()
				remaining--
				if remaining == 0 {
					c.Close()
				}
				m.Unlock()
			})
		}
		o := ""
		for v, ok := c.Recv2(); ok; v, ok = c.Recv2() {
			o += fmt.Sprint(v)
		}
		note(o)
	}, "no-deadlock"},
	{"buffered-cap2-pipeline", func() {
		a := vs.NewChan[int](2)
		b := vs.NewChan[int](1)
		vs.Go(func() {
			for i := 0; i < 3; i++ {
				a.Send(i)
				vs.Event(fmt.Sprint("p", i))
			}
			a.Close()
		})
		vs.Go(func() {
			for v, ok := a.Recv2(); ok; v, ok = a.Recv2() {
				b.Send(v * 10)
			}
			b.Close()
		})
		o := ""
		for v, ok := b.Recv2(); ok; v, ok = b.Recv2() {
			vs.Event(fmt.Sprint("c", v))
			o += fmt.Sprint(v, ",")
		}
		note(o)
	}, "no-deadlock"},
	{"exit-while-others-run", func() {
		vs.Go(func() { vs.Event("x1"); vs.Event("x2") })
		vs.Go(func() { vs.Event("f"); vs.Exit(3) })
		vs.Event("m1")
		vs.Event("m2")
	}, "no-deadlock"},
	{"nil-channel-in-select", func() {
		var n *vs.Chan[int]
		c := vs.NewChan[int](0)
		vs.Go(func() { c.Send(1) })
		x, y := vs.Case(n), vs.Case(c)
		i := vs.Select(x, y)
		note("case", i, y.V)
	}, "no-deadlock"},
	{"try-acquire-select-send-default", func() {
		tok := vs.NewChan[int](1)
		res := vs.NewChan[string](2)
		for i := 0; i < 2; i++ {
			i := i
			vs.Go(func() {
				sc := vs.SendCase(tok, i)
				if vs.SelectDefault(sc) == 0 {
					vs.Event(fmt.Sprint("got", i))
					tok.Recv()
					res.Send(fmt.Sprint(i, "+"))
				} else {
					res.Send(fmt.Sprint(i, "-"))
				}
			})
		}
		a, b := res.Recv(), res.Recv()
		if a > b {
			a, b = b, a
		}
		note(a, b)
	}, "no-deadlock"},
	{"try-send-vs-receiver", func() {
		// a full buffer, a receiver that makes room, a non-blocking sender: whether the try-send
		// succeeds depends on whether the receive came first
		c := vs.NewChan[int](1)
		c.Send(0)
		done := vs.NewChan[int](2)
		vs.Go(func() {
			v := c.Recv()
			note("recv", v)
			done.Send(1)
		})
		vs.Go(func() {
			if vs.SelectDefault(vs.SendCase(c, 7)) == 0 {
				note("sent")
			} else {
				note("full")
			}
			done.Send(1)
		})
		done.Recv()
		done.Recv()
	}, "no-deadlock"},
	{"try-send-twice-late-receiver", func() {
		// two non-blocking sends into a buffer of one while the receiver may or may not have taken
		// the first value yet (and may or may not be pending at its receive already)
		c := vs.NewChan[int](1)
		fin := vs.NewChan[int](0)
		vs.Go(func() {
			for {
				v, ok := c.Recv2()
				if !ok {
					break
				}
				note("got", v)
			}
			fin.Send(1)
		})
		for i := 0; i < 2; i++ {
			if vs.SelectDefault(vs.SendCase(c, i)) != 0 {
				note("dropped", i)
			}
		}
		c.Close()
		fin.Recv()
	}, "no-deadlock"},
	{"try-send-twice-receiver-first", func() {
		// as above, but the receiver is the older goroutine: in the default schedule it is already
		// pending at its receive when the first value is sent
		c := vs.NewChan[int](1)
		fin := vs.NewChan[int](0)
		vs.Go(func() {
			for {
				v, ok := c.Recv2()
				if !ok {
					break
				}
				note("got", v)
			}
			fin.Send(1)
		})
		vs.Go(func() {
			for i := 0; i < 2; i++ {
				if vs.SelectDefault(vs.SendCase(c, i)) != 0 {
					note("dropped", i)
				}
			}
			c.Close()
		})
		fin.Recv()
	}, "no-deadlock"},
	{"try-send-else-spawn-sender", func() {
		// the shape of "deliver now if there is room, else hand over to a goroutine" followed by close
		c := vs.NewChan[int](1)
		fin := vs.NewChan[int](0)
		vs.Go(func() {
			n := 0
			for {
				_, ok := c.Recv2()
				if !ok {
					break
				}
				n++
			}
			note("received", n)
			fin.Send(1)
		})
		for i := 0; i < 2; i++ {
			i := i
			if vs.SelectDefault(vs.SendCase(c, i)) != 0 {
				vs.Go(func() { c.Send(i) })
			}
		}
		c.Close()
		fin.Recv()
	}, ""},
	{"rwmutex-readers-and-writer", func() {
		var m vs.RWMutex
		x := 0
		fin := vs.NewChan[int](3)
		for i := 0; i < 2; i++ {
			vs.Go(func() { m.RLock(); note("read", x); m.RUnlock(); fin.Send(1) })
		}
		vs.Go(func() { m.Lock(); x = 7; m.Unlock(); fin.Send(1) })
		fin.Recv()
		fin.Recv()
		fin.Recv()
	}, "no-deadlock"},
	{"once-two-callers", func() {
		var o vs.Once
		n := 0
		fin := vs.NewChan[int](2)
		for i := 0; i < 2; i++ {
			i := i
			vs.Go(func() { o.Do(func() { n++; note("init by", i) }); note("sees", n); fin.Send(1) })
		}
		fin.Recv()
		fin.Recv()
	}, "no-deadlock"},
	{"package-level-mutex-and-once-across-executions", func() {
		// sync objects that OUTLIVE one execution (package-level variables of the program under
		// test): every execution must meet them in their zero state, also after an execution
		// that ended in a deadlock with the mutex held
		pkgFirst = 0 // plain data is the program's business; the sync objects are the engine's
		fin := vs.NewChan[int](2)
		never := vs.NewChan[int](0)
		for i := 0; i < 2; i++ {
			i := i
			vs.Go(func() {
				pkgOnce.Do(func() { note("init by", i) })
				pkgMu.Lock()
				if i == 1 && pkgFirst == 0 {
					// thread 1 first: keeps the lock for ever -> deadlock with the mutex held
					pkgFirst = 1
					never.Recv()
				}
				if pkgFirst == 0 {
					pkgFirst = 2
				}
				pkgMu.Unlock()
				fin.Send(1)
			})
		}
		fin.Recv()
		fin.Recv()
		note("first", pkgFirst)
	}, "deadlock-possible"},
	{"atomic-cas-claim", func() {
		var flag int32
		var cnt vs.AtomicInt64
		fin := vs.NewChan[int](2)
		for i := 0; i < 2; i++ {
			i := i
			vs.Go(func() {
				if vs.AtomicCAS(&flag, 0, 1) {
					note("claimed by", i)
				}
				cnt.Add(1)
				fin.Send(1)
			})
		}
		fin.Recv()
		fin.Recv()
		note("count", cnt.Load(), vs.AtomicLoad(&flag))
	}, "no-deadlock"},
	{"lost-wakeup-deadlock", func() {
		// receiver waits for a message that is only sent if a flag was seen: deadlock in some schedules
		c := vs.NewChan[int](0)
		f := vs.NewChan[int](1)
		vs.Go(func() {
			x := vs.Case(f)
			if vs.SelectDefault(x) == 0 {
				c.Send(1)
			} else {
				note("default")
			}
		})
		f.Send(1)
		c.Recv()
	}, "deadlock-possible"},
}

// programs with a construct only the UNREDUCED explorer accepts (blocking select with a send
// case): its outcome set is compared with the set derived by hand from the Go semantics
type uprog struct {
	name string
	body func()
	want []string // sorted "outcome|notes"
}

var unreduced = []uprog{
	{"blocking-select-send-or-timer", func() {
		// a slot semaphore with a waiting timer: both the acquisition and the time-out can win
		sem := vs.NewChan[int](1)
		sem.Send(0)
		tick := vs.NewChan[int](1)
		vs.Go(func() { tick.Send(1) })
		vs.Go(func() { sem.Recv() })
		switch vs.Select(vs.SendCase(sem, 1), vs.Case(tick)) {
		case 0:
			note("acquired")
		case 1:
			note("timeout")
		}
	}, []string{"|acquired", "|timeout"}},
	{"blocking-select-send-waits-for-room", func() {
		// no timer: the select blocks until the receiver has made room, then sends
		sem := vs.NewChan[int](1)
		sem.Send(0)
		never := vs.NewChan[int](0)
		fin := vs.NewChan[int](0)
		vs.Go(func() { note("freed", sem.Recv()); fin.Send(1) })
		if vs.Select(vs.SendCase(sem, 7), vs.Case(never)) == 0 {
			note("acquired")
		}
		fin.Recv()
		note("holds", sem.Recv())
	}, []string{"|acquired,freed0,holds7"}},
	{"blocking-select-send-unbuffered", func() {
		// rendezvous through a select: the value arrives exactly once
		c := vs.NewChan[int](0)
		never := vs.NewChan[int](0)
		fin := vs.NewChan[int](0)
		vs.Go(func() { note("got", c.Recv()); fin.Send(1) })
		vs.Select(vs.SendCase(c, 5), vs.Case(never))
		fin.Recv()
	}, []string{"|got5"}},
	{"try-send-unbuffered-receiver-maybe-there", func() {
		// a non-blocking send on an UNBUFFERED channel succeeds only if the receiver has arrived;
		// a receiver whose next step is the receive may or may not have: both answers
		c := vs.NewChan[int](0)
		fin := vs.NewChan[int](1)
		vs.Go(func() {
			v, ok := c.Recv2()
			note("got", v, ok)
			fin.Send(1)
		})
		if vs.SelectDefault(vs.SendCase(c, 3)) == 0 {
			note("sent")
		} else {
			note("default")
			c.Close()
		}
		fin.Recv()
	}, []string{"|default,got0 false", "|got3 true,sent"}},
	{"try-recv-unbuffered-sender-maybe-there", func() {
		c := vs.NewChan[int](0)
		fin := vs.NewChan[int](1)
		stop := vs.NewChan[int](1)
		vs.Go(func() {
			if vs.Select(vs.SendCase(c, 4), vs.Case(stop)) == 0 {
				note("delivered")
			} else {
				note("stopped")
			}
			fin.Send(1)
		})
		x := vs.Case(c)
		if vs.SelectDefault(x) == 0 {
			note("received")
		} else {
			note("default")
			stop.Send(1)
		}
		fin.Recv()
	}, []string{"|default,stopped", "|delivered,received"}},
	{"blocking-select-send-no-room-ever", func() {
		sem := vs.NewChan[int](1)
		sem.Send(0)
		never := vs.NewChan[int](0)
		vs.Select(vs.SendCase(sem, 1), vs.Case(never))
		note("unreachable")
	}, []string{"deadlock|"}},
}

type result struct {
	Name          string  `json:"name"`
	PlainExecs    int     `json:"plain_execs"`
	PlainClosed   bool    `json:"plain_closed"`
	NaiveExecs    int     `json:"naive_execs"`
	NaiveOutcomes int     `json:"naive_outcomes"`
	DporExecs     int     `json:"dpor_execs"`
	DporBlocked   int     `json:"dpor_sleep_blocked"`
	DporOutcomes  int     `json:"dpor_outcomes"`
	Deadlock      bool    `json:"deadlock_reachable"`
	Agree         bool    `json:"agree"`
	Missed        []string `json:"missed,omitempty"`
	Spurious      []string `json:"spurious,omitempty"`
	Wall          float64 `json:"wall_s"`
}

func key(s *vs.Sched) string {
	notes := s.NoteList()
	sort.Strings(notes)
	return s.Outcome + "|" + strings.Join(notes, ",") + "|" + strings.Join(s.EventList(), ";")
}

func main() {
	only := flag.String("only", "", "run one program")
	plainBudget := flag.Int("plain", 8, "seconds of plain (unpruned) enumeration per program")
	debug := flag.Bool("debug", false, "print explored schedules")
	out := flag.String("out", "", "write JSON results here")
	flag.Parse()
	vs.EventsDependent = true
	all := []result{}
	ok := true
	for _, p := range corpus {
		if *only != "" && p.name != *only {
			continue
		}
		t0 := time.Now()
		// the buffer model is a function of the program: every program starts in the default
		// (hand-off) model unless the whole run is forced into the pure one (VS_PURE_BUF=1)
		vs.PureBuf = os.Getenv("VS_PURE_BUF") != ""
		vs.NeedPure = false
		truth := map[string]int{}
		st1 := vs.ExploreNaive(nil, p.body, func(s *vs.Sched) bool { truth[key(s)]++; return true }, true, -1, time.Now().Add(60*time.Second))
		// the pruning of the reference explorer is itself checked against plain enumeration
		// wherever plain enumeration finishes within its budget
		plain := map[string]int{}
		vs.HistHash = false
		st0 := vs.ExploreNaive(nil, p.body, func(s *vs.Sched) bool { plain[key(s)]++; return true }, false, -1, time.Now().Add(time.Duration(*plainBudget)*time.Second))
		cacheOK := true
		if st0.Closed {
			for k := range plain {
				if truth[k] == 0 {
					cacheOK = false
					fmt.Println("    REFERENCE-CACHE UNSOUND, missed:", k)
				}
			}
			truth = plain
		}
		got := map[string]int{}
		vs.DebugRaceAll = *debug
		st2 := vs.ExploreDPOR(nil, p.body, func(s *vs.Sched) bool {
			if *debug {
				fmt.Println("  DPOR exec:", s.ScheduleString(0), "=>", key(s))
			}
			got[key(s)]++
			return true
		}, time.Now().Add(60*time.Second))
		r := result{Name: p.name, NaiveExecs: st1.Execs, NaiveOutcomes: len(truth), DporExecs: st2.Execs, DporBlocked: st2.SleepBlocked, DporOutcomes: len(got)}
		r.Agree = st1.Closed && st2.Closed && cacheOK
		r.PlainExecs = st0.Execs
		r.PlainClosed = st0.Closed
		for k := range truth {
			if strings.HasPrefix(k, "deadlock") {
				r.Deadlock = true
			}
			if strings.Contains(k, "replay divergence") || strings.Contains(k, "vs:") {
				r.Agree = false
			}
			if got[k] == 0 {
				r.Agree = false
				r.Missed = append(r.Missed, k)
			}
		}
		for k := range got {
			if truth[k] == 0 {
				r.Agree = false
				r.Spurious = append(r.Spurious, k)
			}
		}
		if p.want == "deadlock-possible" && !r.Deadlock || p.want == "no-deadlock" && r.Deadlock {
			r.Agree = false
			r.Missed = append(r.Missed, "deadlock verdict differs from expectation "+p.want)
		}
		r.Wall = time.Since(t0).Seconds()
		fmt.Printf("%-34s plain=%-7d(%v) naive execs=%-7d outcomes=%-4d | dpor execs=%-5d blocked=%-4d outcomes=%-4d | deadlock=%-5v agree=%v\n", r.Name, r.PlainExecs, r.PlainClosed, r.NaiveExecs, r.NaiveOutcomes, r.DporExecs, r.DporBlocked, r.DporOutcomes, r.Deadlock, r.Agree)
		for _, m := range r.Missed {
			fmt.Println("    MISSED by DPOR:", m)
		}
		for _, m := range r.Spurious {
			fmt.Println("    SPURIOUS in DPOR:", m)
		}
		if !r.Agree {
			ok = false
		}
		all = append(all, r)
	}
	for _, p := range unreduced {
		if *only != "" && p.name != *only {
			continue
		}
		vs.PureBuf = os.Getenv("VS_PURE_BUF") != ""
		vs.NeedPure = false
		got := map[string]bool{}
		st := vs.ExploreNaive(nil, p.body, func(s *vs.Sched) bool {
			notes := s.NoteList()
			sort.Strings(notes)
			oc := s.Outcome
			if strings.HasPrefix(oc, "deadlock") {
				oc = "deadlock"
			}
			got[oc+"|"+strings.Join(notes, ",")] = true
			return true
		}, false, -1, time.Now().Add(60*time.Second))
		keys := []string{}
		for k := range got {
			keys = append(keys, k)
		}
		sort.Strings(keys)
		agree := st.Closed && strings.Join(keys, ";") == strings.Join(p.want, ";")
		fmt.Printf("%-34s plain=%-7d(%v) outcomes=%v expected=%v agree=%v (unreduced explorer only)\n", p.name, st.Execs, st.Closed, keys, p.want, agree)
		all = append(all, result{Name: p.name, PlainExecs: st.Execs, PlainClosed: st.Closed, NaiveOutcomes: len(keys), Agree: agree})
		if !agree {
			ok = false
		}
	}
	if *out != "" {
		b, _ := json.MarshalIndent(all, "", " ")
		os.WriteFile(*out, b, 0644)
	}
	if !ok {
		fmt.Println("CONFORMANCE-FAILURE: reduced and unreduced explorers disagree")
		os.Exit(2)
	}
	fmt.Println("conformance ok:", len(all), "programs")
}
