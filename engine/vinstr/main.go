// vinstr: source-to-source pass that puts a Go package under the controlled runtime `vs`.
//
//	vinstr [-race] [-tags t] importpath=srcdir=dstdir ...      (in dependency order)
//
// Every construct whose behaviour Go leaves to the runtime or the environment is rewritten
// into a call of the shim (see DESIGN.md 2.1); everything else is copied unchanged. An
// unsupported construct aborts with exit 2 and INSTRUMENT-ERROR (never a VIOLATION).
package main

import (
	"bytes"
	"flag"
	"fmt"
	"go/ast"
	"go/build/constraint"
	"go/format"
	"go/importer"
	"go/parser"
	"go/token"
	"go/types"
	"os"
	"path/filepath"
	"sort"
	"strings"

	"golang.org/x/tools/go/ast/astutil"
)

type pkgImporter struct {
	def  types.Importer
	pkgs map[string]*types.Package
}

func (p *pkgImporter) Import(path string) (*types.Package, error) {
	if pk, ok := p.pkgs[path]; ok {
		return pk, nil
	}
	return p.def.Import(path)
}

var (
	fset      = token.NewFileSet()
	imp       = &pkgImporter{def: importer.ForCompiler(fset, "source", nil), pkgs: map[string]*types.Package{}}
	raceMode  = flag.Bool("race", false, "also rewrite map operations into visible memory accesses")
	tags      = flag.String("tags", "verif", "build tags that are on (for //go:build filtering)")
	noRewrite = flag.String("typecheck-only", "", "comma-separated import paths that are only type-checked (the shim itself)")
)

const shimAlias = "vs__"

var pkgRace bool

func fail(format string, a ...interface{}) {
	fmt.Fprintf(os.Stderr, "INSTRUMENT-ERROR: "+format+"\n", a...)
	os.Exit(2)
}

func main() {
	flag.Parse()
	only := map[string]bool{}
	for _, p := range strings.Split(*noRewrite, ",") {
		if p != "" {
			only[p] = true
		}
	}
	for _, a := range flag.Args() {
		p := strings.Split(a, "=")
		if len(p) == 4 && p[3] == "norace" {
			pkgRace = false
			p = p[:3]
		} else {
			pkgRace = *raceMode
		}
		if len(p) != 3 {
			fail("bad argument %q", a)
		}
		if err := instrument(p[0], p[1], p[2], only[p[0]]); err != nil {
			fail("%s: %v", p[0], err)
		}
	}
	// phase 2: rewrite, once the mutable fields / package-level variables of ALL packages are known
	// (a field of package A that only package B assigns after construction is mutable in A too)
	for _, f := range pending {
		if err := f(); err != nil {
			fail("%v", err)
		}
	}
}

var pending []func() error
var allMutable = map[*types.Var]bool{}

func sel(x, s string) *ast.SelectorExpr {
	return &ast.SelectorExpr{X: ast.NewIdent(x), Sel: ast.NewIdent(s)}
}
func vsel(s string) *ast.SelectorExpr                 { return sel(shimAlias, s) }
func call(f ast.Expr, args ...ast.Expr) *ast.CallExpr { return &ast.CallExpr{Fun: f, Args: args} }
func method(x ast.Expr, m string, args ...ast.Expr) *ast.CallExpr {
	return call(&ast.SelectorExpr{X: x, Sel: ast.NewIdent(m)}, args...)
}
func chanType(elem ast.Expr) ast.Expr {
	return &ast.StarExpr{X: &ast.IndexExpr{X: vsel("Chan"), Index: elem}}
}

type rewriter struct {
	info    *types.Info
	n       int
	file    string
	mutable map[*types.Var]bool
	pre     map[ast.Stmt][]ast.Stmt
}

// ---------------------------------------------------------------- field accesses (race build)
//
// Fields that are assigned somewhere after construction (x.f = v, x.f++, x.f op= v) are shared
// mutable state: every read / write of such a field through a pointer-typed identifier
// (receiver, parameter, local) becomes a visible memory access vs.R(&x.f) / vs.W(&x.f),
// inserted before the statement that performs it. Right operands of && and || and loop
// conditions are left alone (hoisting them could dereference a nil pointer the original guards).

func fieldOf(info *types.Info, e ast.Expr) (*ast.SelectorExpr, *types.Var) {
	se, ok := e.(*ast.SelectorExpr)
	if !ok {
		return nil, nil
	}
	sel := info.Selections[se]
	if sel == nil || sel.Kind() != types.FieldVal {
		return nil, nil
	}
	v, ok := sel.Obj().(*types.Var)
	if !ok {
		return nil, nil
	}
	return se, v
}

// mutableGlobals: package-level variables that are assigned inside some function body
// ("pkgpath.Name"); kept across the packages of one vinstr run (dependency order).
var mutableGlobals = map[string]bool{}

func globalVarOf(info *types.Info, id *ast.Ident) *types.Var {
	v, ok := info.Uses[id].(*types.Var)
	if !ok || v.IsField() || v.Pkg() == nil || v.Parent() != v.Pkg().Scope() {
		return nil
	}
	return v
}

func globalKey(v *types.Var) string { return v.Pkg().Path() + "." + v.Name() }

func collectMutableFields(f *ast.File, info *types.Info, m map[*types.Var]bool) {
	ast.Inspect(f, func(n ast.Node) bool {
		switch x := n.(type) {
		case *ast.AssignStmt:
			for _, l := range x.Lhs {
				if _, v := fieldOf(info, l); v != nil {
					m[v] = true
				}
				if id, ok := l.(*ast.Ident); ok && x.Tok != token.DEFINE {
					if v := globalVarOf(info, id); v != nil {
						mutableGlobals[globalKey(v)] = true
					}
				}
			}
		case *ast.IncDecStmt:
			if _, v := fieldOf(info, x.X); v != nil {
				m[v] = true
			}
		}
		return true
	})
}

// ptrIdentBase: the base of a field selector when it is a pointer-typed expression that can be
// evaluated a second time without side effects: an identifier, or an index expression over
// identifiers / literals (m[k].F, s[i].F). Returned as a fresh copy.
func (r *rewriter) ptrIdentBase(se *ast.SelectorExpr) ast.Expr {
	t := r.info.TypeOf(se.X)
	if t == nil {
		return nil
	}
	if _, ok := t.Underlying().(*types.Pointer); !ok {
		return nil
	}
	return pureCopy(se.X)
}

func pureCopy(e ast.Expr) ast.Expr {
	switch x := e.(type) {
	case *ast.Ident:
		return ast.NewIdent(x.Name)
	case *ast.BasicLit:
		return &ast.BasicLit{Kind: x.Kind, Value: x.Value}
	case *ast.ParenExpr:
		if c := pureCopy(x.X); c != nil {
			return &ast.ParenExpr{X: c}
		}
	case *ast.IndexExpr:
		bx, ok1 := x.X.(*ast.Ident)
		if !ok1 {
			return nil
		}
		ix := pureCopy(x.Index)
		if _, isIdx := x.Index.(*ast.IndexExpr); isIdx || ix == nil {
			return nil
		}
		return &ast.IndexExpr{X: ast.NewIdent(bx.Name), Index: ix}
	}
	return nil
}

func (r *rewriter) accessStmt(se *ast.SelectorExpr, base ast.Expr, write bool) ast.Stmt {
	fn := "R"
	if write {
		fn = "W"
	}
	return &ast.ExprStmt{X: call(vsel(fn), &ast.UnaryExpr{Op: token.AND, X: &ast.SelectorExpr{X: base, Sel: ast.NewIdent(se.Sel.Name)}})}
}

// readsIn collects instrumentable field reads of an expression (not descending into function
// literals, nor into the right operand of && / ||).
func (r *rewriter) readsIn(e ast.Expr, out *[]ast.Stmt) {
	if e == nil {
		return
	}
	ast.Inspect(e, func(n ast.Node) bool {
		switch x := n.(type) {
		case *ast.FuncLit:
			return false
		case *ast.BinaryExpr:
			if x.Op == token.LAND || x.Op == token.LOR {
				r.readsIn(x.X, out)
				return false
			}
		case *ast.UnaryExpr:
			if x.Op == token.AND {
				return false // taking an address is not an access
			}
		case *ast.SelectorExpr:
			if se, v := fieldOf(r.info, x); v != nil && r.mutable[v] {
				if id := r.ptrIdentBase(se); id != nil {
					*out = append(*out, r.accessStmt(se, id, false))
				}
			}
			// pkg.Var of another instrumented package
			if pid, ok := x.X.(*ast.Ident); ok {
				if _, isPkg := r.info.Uses[pid].(*types.PkgName); isPkg {
					if v := globalVarOf(r.info, x.Sel); v != nil && mutableGlobals[globalKey(v)] {
						*out = append(*out, r.globalStmt(&ast.SelectorExpr{X: ast.NewIdent(pid.Name), Sel: ast.NewIdent(x.Sel.Name)}, false))
					}
					return false
				}
			}
		case *ast.Ident:
			if v := globalVarOf(r.info, x); v != nil && mutableGlobals[globalKey(v)] {
				*out = append(*out, r.globalStmt(ast.NewIdent(x.Name), false))
			}
		case *ast.CallExpr:
			// a method call on a package-level variable whose type is a library type that is
			// documented as NOT safe for concurrent use mutates that variable's state
			if se, ok := x.Fun.(*ast.SelectorExpr); ok {
				if id, ok := se.X.(*ast.Ident); ok {
					if v := globalVarOf(r.info, id); v != nil && unsafeLibType(v.Type()) {
						*out = append(*out, r.globalStmt(ast.NewIdent(id.Name), true))
					}
				}
			}
		}
		return true
	})
}

// unsafeLibType: standard-library types whose methods must not be called concurrently.
func unsafeLibType(t types.Type) bool {
	if p, ok := t.(*types.Pointer); ok {
		t = p.Elem()
	}
	n, ok := t.(*types.Named)
	if !ok || n.Obj().Pkg() == nil {
		return false
	}
	switch n.Obj().Pkg().Path() + "." + n.Obj().Name() {
	case "math/rand.Rand", "bytes.Buffer", "strings.Builder", "bufio.Writer", "bufio.Reader", "bufio.Scanner", "container/list.List", "container/ring.Ring", "encoding/json.Encoder", "encoding/json.Decoder", "text/tabwriter.Writer", "hash/crc32.digest":
		return true
	}
	return false
}

// globalStmt: quiet (non-scheduling) access to a package-level variable: vs.RQ(&X) / vs.WQ(&X)
func (r *rewriter) globalStmt(e ast.Expr, write bool) ast.Stmt {
	fn := "RQ"
	if write {
		fn = "WQ"
	}
	return &ast.ExprStmt{X: call(vsel(fn), &ast.UnaryExpr{Op: token.AND, X: e})}
}

func (r *rewriter) collectAccesses(list []ast.Stmt) {
	for _, st := range list {
		pre := []ast.Stmt{}
		simple := func(s ast.Stmt) {
			switch x := s.(type) {
			case *ast.ExprStmt:
				r.readsIn(x.X, &pre)
			case *ast.AssignStmt:
				for _, e := range x.Rhs {
					r.readsIn(e, &pre)
				}
				for _, l := range x.Lhs {
					if se, v := fieldOf(r.info, l); v != nil {
						if id := r.ptrIdentBase(se); id != nil && r.mutable[v] {
							pre = append(pre, r.accessStmt(se, id, true))
						}
						continue
					}
					if ix, ok := l.(*ast.IndexExpr); ok {
						r.readsIn(ix.X, &pre)
						r.readsIn(ix.Index, &pre)
					}
					if id, ok := l.(*ast.Ident); ok && x.Tok != token.DEFINE {
						if v := globalVarOf(r.info, id); v != nil && mutableGlobals[globalKey(v)] {
							pre = append(pre, r.globalStmt(ast.NewIdent(id.Name), true))
						}
					}
				}
			case *ast.IncDecStmt:
				if se, v := fieldOf(r.info, x.X); v != nil && r.mutable[v] {
					if id := r.ptrIdentBase(se); id != nil {
						pre = append(pre, r.accessStmt(se, id, true))
					}
				}
			case *ast.SendStmt:
				r.readsIn(x.Chan, &pre)
				r.readsIn(x.Value, &pre)
			}
		}
		switch x := st.(type) {
		case *ast.ExprStmt, *ast.AssignStmt, *ast.IncDecStmt, *ast.SendStmt:
			simple(x)
		case *ast.IfStmt:
			if x.Init == nil {
				r.readsIn(x.Cond, &pre)
			}
		case *ast.ReturnStmt:
			for _, e := range x.Results {
				r.readsIn(e, &pre)
			}
		case *ast.SwitchStmt:
			if x.Init == nil {
				r.readsIn(x.Tag, &pre)
			}
		case *ast.RangeStmt:
			r.readsIn(x.X, &pre)
		case *ast.GoStmt:
			for _, a := range x.Call.Args {
				r.readsIn(a, &pre)
			}
		case *ast.DeferStmt:
			for _, a := range x.Call.Args {
				r.readsIn(a, &pre)
			}
		case *ast.DeclStmt:
			if gd, ok := x.Decl.(*ast.GenDecl); ok {
				for _, sp := range gd.Specs {
					if vsp, ok := sp.(*ast.ValueSpec); ok {
						for _, e := range vsp.Values {
							r.readsIn(e, &pre)
						}
					}
				}
			}
		}
		if len(pre) > 0 {
			r.pre[st] = pre
		}
	}
}

func (r *rewriter) tmp(p string) *ast.Ident {
	r.n++
	return ast.NewIdent(fmt.Sprintf("__%s%d", p, r.n))
}

func (r *rewriter) isChan(e ast.Expr) bool {
	t := r.info.TypeOf(e)
	if t == nil {
		return false
	}
	_, ok := t.Underlying().(*types.Chan)
	return ok
}
func (r *rewriter) isMap(e ast.Expr) bool {
	t := r.info.TypeOf(e)
	if t == nil {
		return false
	}
	_, ok := t.Underlying().(*types.Map)
	return ok
}

func tagOn(f *ast.File) bool {
	on := map[string]bool{}
	for _, t := range strings.Split(*tags, ",") {
		on[t] = true
	}
	for _, cg := range f.Comments {
		if cg.Pos() >= f.Package {
			break
		}
		for _, c := range cg.List {
			if constraint.IsGoBuild(c.Text) {
				x, err := constraint.Parse(c.Text)
				if err != nil {
					return true
				}
				return x.Eval(func(tag string) bool {
					return on[tag] || tag == "linux" || tag == "amd64" || tag == "unix" || strings.HasPrefix(tag, "go1.")
				})
			}
		}
	}
	return true
}

func buildLine(f *ast.File) string {
	for _, cg := range f.Comments {
		if cg.Pos() >= f.Package {
			break
		}
		for _, c := range cg.List {
			if constraint.IsGoBuild(c.Text) {
				return c.Text
			}
		}
	}
	return ""
}

func instrument(importPath, src, dst string, typecheckOnly bool) error {
	pkgs, err := parser.ParseDir(fset, src, func(fi os.FileInfo) bool { return !strings.HasSuffix(fi.Name(), "_test.go") }, parser.ParseComments)
	if err != nil {
		return err
	}
	for _, pkg := range pkgs {
		names := []string{}
		for n, f := range pkg.Files {
			if tagOn(f) {
				names = append(names, n)
			}
		}
		sort.Strings(names)
		files := []*ast.File{}
		for _, n := range names {
			files = append(files, pkg.Files[n])
		}
		if len(files) == 0 {
			continue
		}
		info := &types.Info{Types: map[ast.Expr]types.TypeAndValue{}, Uses: map[*ast.Ident]types.Object{}, Defs: map[*ast.Ident]types.Object{}, Selections: map[*ast.SelectorExpr]*types.Selection{}}
		conf := types.Config{Importer: imp, GoVersion: "go1.21"}
		tp, err := conf.Check(importPath, fset, files, info)
		if err != nil {
			return err
		}
		if pkg.Name != "main" || len(pkgs) == 1 {
			imp.pkgs[importPath] = tp
		}
		if typecheckOnly {
			continue
		}
		os.MkdirAll(dst, 0777)
		mutable := allMutable
		race := pkgRace
		if pkgRace {
			for _, f := range files {
				collectMutableFields(f, info, mutable)
			}
		}
		files, names, info, dst := files, names, info, dst
		pending = append(pending, func() error {
			pkgRace = race
			for i, f := range files {
				bl := buildLine(f)
				r := &rewriter{info: info, file: names[i], mutable: mutable}
				nf := r.rewrite(f)
				uses := false
				ast.Inspect(nf, func(n ast.Node) bool {
					if id, ok := n.(*ast.Ident); ok && id.Name == shimAlias {
						uses = true
					}
					return true
				})
				if uses {
					astutil.AddNamedImport(fset, nf, shimAlias, "vs")
				}
				for _, is := range append([]*ast.ImportSpec{}, nf.Imports...) {
					p := strings.Trim(is.Path.Value, "\"")
					if is.Name != nil && (is.Name.Name == "_" || is.Name.Name == ".") {
						continue
					}
					if !astutil.UsesImport(nf, p) {
						if is.Name != nil {
							astutil.DeleteNamedImport(fset, nf, is.Name.Name, p)
						} else {
							astutil.DeleteImport(fset, nf, p)
						}
					}
				}
				// comments attach to the wrong nodes after rewriting: drop them
				nf.Comments = nil
				nf.Doc = nil
				var buf bytes.Buffer
				if bl != "" {
					buf.WriteString(bl + "\n\n")
				}
				if err := format.Node(&buf, fset, nf); err != nil {
					return fmt.Errorf("%s: %v", names[i], err)
				}
				if err := os.WriteFile(filepath.Join(dst, filepath.Base(names[i])), buf.Bytes(), 0644); err != nil {
					return err
				}
			}
			return nil
		})
	}
	return nil
}

type action int

const (
	aNone action = iota
	aMakeChan
	aRecv
	aRecv2Assign
	aClose
	aLen
	aCap
	aRangeChan
	aRangeMap
	aSelect
	aGo
	aSyncType
	aOsExit
	aShimFunc
	aMapGet
	aMapGet2
	aMapSet
	aMapDel
	aMapLen
	aRecover
	aDeepRead
	aAtomicSel
	aSkip
)

// package-level functions replaced by same-purpose functions of the shim
var shimFuncs = map[string]string{
	"os.Stat": "FSStat", "os.Lstat": "FSLstat", "os.MkdirAll": "FSMkdirAll", "os.Rename": "FSRename",
	"os.RemoveAll": "FSRemoveAll", "os.Remove": "FSRemove", "os.Create": "FSCreate", "os.Open": "FSOpen", "os.OpenFile": "FSOpenFile",
	"io/ioutil.WriteFile": "FSWriteFile", "io/ioutil.ReadFile": "FSReadFile", "io/ioutil.TempFile": "FSTempFile",
	"os.WriteFile": "FSWriteFile", "os.ReadFile": "FSReadFile", "os.CreateTemp": "FSTempFile",
	"path/filepath.Walk": "FSWalk", "path/filepath.Glob": "FSGlob",
	"os/exec.Command": "Command",
	"time.Now":        "Now", "time.Sleep": "Sleep", "time.After": "After",
	"os.Exit": "Exit",
}

func (r *rewriter) pkgFunc(x *ast.CallExpr) string {
	s, ok := x.Fun.(*ast.SelectorExpr)
	if !ok {
		return ""
	}
	id, ok := s.X.(*ast.Ident)
	if !ok {
		return ""
	}
	pn, ok := r.info.Uses[id].(*types.PkgName)
	if !ok {
		return ""
	}
	return pn.Imported().Path() + "." + s.Sel.Name
}

func (r *rewriter) pos(n ast.Node) string { return fset.Position(n.Pos()).String() }

func (r *rewriter) rewrite(f *ast.File) *ast.File {
	acts := map[ast.Node]action{}
	atomicSel := map[ast.Node]string{}
	labeled := map[ast.Stmt]bool{}
	r.pre = map[ast.Stmt][]ast.Stmt{}
	if pkgRace {
		ast.Inspect(f, func(n ast.Node) bool {
			switch x := n.(type) {
			case *ast.BlockStmt:
				r.collectAccesses(x.List)
			case *ast.CaseClause:
				r.collectAccesses(x.Body)
			case *ast.CommClause:
				r.collectAccesses(x.Body)
			}
			return true
		})
	}
	// classification pass on the ORIGINAL tree (types known)
	ast.Inspect(f, func(n ast.Node) bool {
		switch x := n.(type) {
		case *ast.LabeledStmt:
			labeled[x.Stmt] = true
		case *ast.CallExpr:
			if id, ok := x.Fun.(*ast.Ident); ok && r.info.Uses[id] != nil && r.info.Uses[id].Parent() == types.Universe {
				switch id.Name {
				case "make":
					if _, ok := r.info.TypeOf(x.Args[0]).Underlying().(*types.Chan); ok {
						acts[x] = aMakeChan
					}
				case "close":
					acts[x] = aClose
				case "len":
					if r.isChan(x.Args[0]) {
						acts[x] = aLen
					} else if pkgRace && r.isMap(x.Args[0]) {
						acts[x] = aMapLen
					}
				case "delete":
					if pkgRace {
						acts[x] = aMapDel
					}
				case "cap":
					if r.isChan(x.Args[0]) {
						acts[x] = aCap
					}
				case "recover":
					acts[x] = aRecover
				}
			}
			if shimFuncs[r.pkgFunc(x)] != "" {
				acts[x] = aShimFunc
			}
			if pf := r.pkgFunc(x); pkgRace && (pf == "encoding/json.Marshal" || pf == "encoding/json.MarshalIndent") && len(x.Args) > 0 {
				// serialising a record READS the maps it holds (by reflection, invisible otherwise)
				acts[x] = aDeepRead
			}
		case *ast.UnaryExpr:
			if x.Op == token.ARROW && acts[x] == aNone {
				acts[x] = aRecv
			}
		case *ast.AssignStmt:
			if len(x.Lhs) == 2 && len(x.Rhs) == 1 {
				if u, ok := x.Rhs[0].(*ast.UnaryExpr); ok && u.Op == token.ARROW {
					acts[u] = aRecv2Assign
				}
			}
			if pkgRace {
				for _, l := range x.Lhs {
					if ix, ok := l.(*ast.IndexExpr); ok && r.isMap(ix.X) {
						acts[ix] = aMapSet
					}
				}
			}
		case *ast.ValueSpec:
			if len(x.Names) == 2 && len(x.Values) == 1 {
				if u, ok := x.Values[0].(*ast.UnaryExpr); ok && u.Op == token.ARROW {
					acts[u] = aRecv2Assign
				}
			}
		case *ast.IncDecStmt:
			if ix, ok := x.X.(*ast.IndexExpr); ok && pkgRace && r.isMap(ix.X) {
				acts[ix] = aMapSet
			}
		case *ast.IndexExpr:
			if pkgRace && r.isMap(x.X) && acts[x] == aNone {
				acts[x] = aMapGet
			}
		case *ast.RangeStmt:
			if r.isChan(x.X) {
				acts[x] = aRangeChan
			} else if r.isMap(x.X) {
				acts[x] = aRangeMap
			}
		case *ast.SelectStmt:
			acts[x] = aSelect
		case *ast.GoStmt:
			acts[x] = aGo
		case *ast.SelectorExpr:
			if id, ok := x.X.(*ast.Ident); ok {
				if pn, ok := r.info.Uses[id].(*types.PkgName); ok && pn.Imported().Path() == "sync" {
					switch x.Sel.Name {
					case "Mutex", "WaitGroup", "Once", "RWMutex":
						acts[x] = aSyncType
					default:
						fail("%s: sync.%s is not supported by the shim", r.pos(x), x.Sel.Name)
					}
				}
				if pn, ok := r.info.Uses[id].(*types.PkgName); ok && pn.Imported().Path() == "sync/atomic" {
					n := x.Sel.Name
					to := ""
					switch {
					case strings.HasPrefix(n, "CompareAndSwap"):
						to = "AtomicCAS"
					case strings.HasPrefix(n, "Add"):
						to = "AtomicAdd"
					case strings.HasPrefix(n, "Load"):
						to = "AtomicLoad"
					case strings.HasPrefix(n, "Store"):
						to = "AtomicStore"
					case strings.HasPrefix(n, "Swap"):
						to = "AtomicSwap"
					case n == "Int32" || n == "Int64" || n == "Uint32" || n == "Uint64" || n == "Uintptr" || n == "Bool" || n == "Value" || n == "Pointer":
						to = "Atomic" + n
					default:
						fail("%s: sync/atomic.%s is not supported by the shim", r.pos(x), n)
					}
					acts[x] = aAtomicSel
					atomicSel[x] = to
				}
			}
		}
		return true
	})
	res := astutil.Apply(f, nil, func(c *astutil.Cursor) bool {
		n := c.Node()
		if st, ok := n.(ast.Stmt); ok && len(r.pre[st]) > 0 && c.Index() >= 0 {
			for _, p := range r.pre[st] {
				c.InsertBefore(p)
			}
			delete(r.pre, st)
		}
		switch x := n.(type) {
		case *ast.ChanType:
			c.Replace(chanType(x.Value))
		case *ast.IndexExpr:
			switch acts[x] {
			case aMapGet:
				x.X = call(vsel("MapRead"), x.X)
			case aMapSet:
				x.X = call(vsel("MapW"), x.X)
			}
		case *ast.SendStmt:
			c.Replace(&ast.ExprStmt{X: method(x.Chan, "Send", x.Value)})
		case *ast.SelectorExpr:
			if acts[x] == aSyncType {
				c.Replace(vsel(x.Sel.Name))
			}
			if acts[x] == aAtomicSel {
				c.Replace(vsel(atomicSel[x]))
			}
		case *ast.UnaryExpr:
			switch acts[x] {
			case aRecv:
				c.Replace(method(x.X, "Recv"))
			case aRecv2Assign:
				c.Replace(method(x.X, "Recv2"))
			}
		case *ast.CallExpr:
			switch acts[x] {
			case aMakeChan:
				// x.Args[0] has been rewritten to *vs.Chan[T]
				elem := x.Args[0].(*ast.StarExpr).X.(*ast.IndexExpr).Index
				var n ast.Expr = &ast.BasicLit{Kind: token.INT, Value: "0"}
				if len(x.Args) > 1 {
					n = x.Args[1]
				}
				c.Replace(call(&ast.IndexExpr{X: vsel("NewChan"), Index: elem}, n))
			case aClose:
				c.Replace(method(x.Args[0], "Close"))
			case aLen:
				c.Replace(method(x.Args[0], "Len"))
			case aMapLen:
				x.Args[0] = call(vsel("MapRead"), x.Args[0])
			case aMapDel:
				x.Args[0] = call(vsel("MapW"), x.Args[0])
			case aCap:
				c.Replace(method(x.Args[0], "Cap"))
			case aDeepRead:
				x.Args[0] = call(vsel("DeepRead"), x.Args[0])
			case aRecover:
				// the controlled runtime unwinds killed threads with a panic of its own: a recover()
				// of the code under test must let that one pass
				delete(acts, x)
				c.Replace(call(vsel("Recover"), x))
			case aShimFunc:
				se := x.Fun.(*ast.SelectorExpr)
				// the package identifier is still the original one here
				key := ""
				if id, ok := se.X.(*ast.Ident); ok {
					if pn, ok := r.info.Uses[id].(*types.PkgName); ok {
						key = pn.Imported().Path() + "." + se.Sel.Name
					}
				}
				c.Replace(&ast.CallExpr{Fun: vsel(shimFuncs[key]), Args: x.Args, Ellipsis: x.Ellipsis})
			}
		case *ast.RangeStmt:
			switch acts[x] {
			case aRangeChan:
				// for __it[, v] := vs.ChanIter[V](ch); __it.Next(); { v = __it.V(); {body} }
				it := r.tmp("it")
				lhs := []ast.Expr{it}
				fn := "ChanIter"
				pre := []ast.Stmt{}
				if x.Key != nil {
					if id, ok := x.Key.(*ast.Ident); !ok || id.Name != "_" {
						if x.Tok == token.DEFINE {
							lhs = append(lhs, x.Key)
							fn = "ChanIterV"
						}
						pre = append(pre, &ast.AssignStmt{Lhs: []ast.Expr{x.Key}, Tok: token.ASSIGN, Rhs: []ast.Expr{method(it, "V")}})
					}
				}
				c.Replace(&ast.ForStmt{
					Init: &ast.AssignStmt{Lhs: lhs, Tok: token.DEFINE, Rhs: []ast.Expr{call(vsel(fn), x.X)}},
					Cond: method(it, "Next"),
					Body: &ast.BlockStmt{List: append(pre, x.Body)},
				})
			case aRangeMap:
				it := r.tmp("it")
				lhs := []ast.Expr{it}
				asgL, asgR := []ast.Expr{}, []ast.Expr{}
				fn := "MapIter"
				hasK, hasV := false, false
				if x.Key != nil {
					if id, ok := x.Key.(*ast.Ident); !ok || id.Name != "_" {
						hasK = true
						asgL = append(asgL, x.Key)
						asgR = append(asgR, method(it, "K"))
					}
				}
				if x.Value != nil {
					if id, ok := x.Value.(*ast.Ident); !ok || id.Name != "_" {
						hasV = true
						asgL = append(asgL, x.Value)
						asgR = append(asgR, method(it, "V"))
					}
				}
				if x.Tok == token.DEFINE {
					switch {
					case hasK && hasV:
						fn = "MapIterKV"
						lhs = append(lhs, x.Key, x.Value)
					case hasK:
						fn = "MapIterK"
						lhs = append(lhs, x.Key)
					case hasV:
						fn = "MapIterV"
						lhs = append(lhs, x.Value)
					}
				}
				pre := []ast.Stmt{}
				if len(asgL) > 0 {
					pre = append(pre, &ast.AssignStmt{Lhs: asgL, Tok: token.ASSIGN, Rhs: asgR})
				}
				m := x.X
				if pkgRace {
					m = call(vsel("MapRead"), m)
				}
				c.Replace(&ast.ForStmt{
					Init: &ast.AssignStmt{Lhs: lhs, Tok: token.DEFINE, Rhs: []ast.Expr{call(vsel(fn), m)}},
					Cond: method(it, "Next"),
					Body: &ast.BlockStmt{List: append(pre, x.Body)},
				})
			}
		case *ast.GoStmt:
			pre := []ast.Stmt{}
			cl := x.Call
			if fl, ok := cl.Fun.(*ast.FuncLit); ok && len(cl.Args) == 0 {
				c.Replace(&ast.ExprStmt{X: call(vsel("Go"), fl)})
				break
			}
			if labeled[x] {
				fail("%s: labeled go statement with arguments is not supported", r.pos(x))
			}
			// Go evaluates the function value and the arguments in the spawning goroutine
			nc := &ast.CallExpr{Fun: cl.Fun, Ellipsis: cl.Ellipsis}
			if s, ok := cl.Fun.(*ast.SelectorExpr); ok {
				if _, isIdent := s.X.(*ast.Ident); !isIdent || r.info.Selections[s] != nil {
					rv := r.tmp("r")
					pre = append(pre, &ast.AssignStmt{Lhs: []ast.Expr{rv}, Tok: token.DEFINE, Rhs: []ast.Expr{s.X}})
					nc.Fun = &ast.SelectorExpr{X: rv, Sel: s.Sel}
				}
			} else if _, ok := cl.Fun.(*ast.Ident); !ok {
				fv := r.tmp("f")
				pre = append(pre, &ast.AssignStmt{Lhs: []ast.Expr{fv}, Tok: token.DEFINE, Rhs: []ast.Expr{cl.Fun}})
				nc.Fun = fv
			}
			for _, a := range cl.Args {
				av := r.tmp("a")
				pre = append(pre, &ast.AssignStmt{Lhs: []ast.Expr{av}, Tok: token.DEFINE, Rhs: []ast.Expr{a}})
				nc.Args = append(nc.Args, av)
			}
			fn := &ast.FuncLit{Type: &ast.FuncType{Params: &ast.FieldList{}}, Body: &ast.BlockStmt{List: []ast.Stmt{&ast.ExprStmt{X: nc}}}}
			pre = append(pre, &ast.ExprStmt{X: call(vsel("Go"), fn)})
			c.Replace(&ast.BlockStmt{List: pre})
		case *ast.SelectStmt:
			if labeled[x] {
				fail("%s: labeled select is not supported", r.pos(x))
			}
			pre := []ast.Stmt{}
			cases := []ast.Expr{}
			sw := &ast.SwitchStmt{Body: &ast.BlockStmt{}}
			idx := 0
			hasDefault := false
			for _, cc := range x.Body.List {
				cl := cc.(*ast.CommClause)
				if cl.Comm == nil {
					hasDefault = true
					// the select's default is the switch's default (SelectDefault answers -1): keeps
					// "select with return in every case" a terminating statement
					sw.Body.List = append(sw.Body.List, &ast.CaseClause{List: nil, Body: cl.Body})
					continue
				}
				cv := r.tmp("c")
				body := cl.Body
				switch st := cl.Comm.(type) {
				case *ast.ExprStmt: // case <-ch: (already rewritten to ch.Recv()) or case ch <- v: (already ch.Send(v))
					ce, ok := st.X.(*ast.CallExpr)
					if !ok {
						fail("%s: unsupported select case", r.pos(x))
					}
					se := ce.Fun.(*ast.SelectorExpr)
					ch := se.X
					if se.Sel.Name == "Send" && len(ce.Args) == 1 {
						pre = append(pre, &ast.AssignStmt{Lhs: []ast.Expr{cv}, Tok: token.DEFINE, Rhs: []ast.Expr{call(vsel("SendCase"), ch, ce.Args[0])}})
					} else {
						pre = append(pre, &ast.AssignStmt{Lhs: []ast.Expr{cv}, Tok: token.DEFINE, Rhs: []ast.Expr{call(vsel("Case"), ch)}})
					}
				case *ast.AssignStmt: // case v[, ok] := <-ch:
					ch := st.Rhs[0].(*ast.CallExpr).Fun.(*ast.SelectorExpr).X
					pre = append(pre, &ast.AssignStmt{Lhs: []ast.Expr{cv}, Tok: token.DEFINE, Rhs: []ast.Expr{call(vsel("Case"), ch)}})
					rhs := []ast.Expr{&ast.SelectorExpr{X: cv, Sel: ast.NewIdent("V")}}
					if len(st.Lhs) == 2 {
						rhs = append(rhs, &ast.SelectorExpr{X: cv, Sel: ast.NewIdent("Ok")})
					}
					body = append([]ast.Stmt{&ast.AssignStmt{Lhs: st.Lhs, Tok: st.Tok, Rhs: rhs}}, body...)
					// "declared and not used" is not an issue: the original declared the same names
				default:
					fail("%s: select with a send case is not supported by the shim", r.pos(x))
				}
				cases = append(cases, cv)
				sw.Body.List = append(sw.Body.List, &ast.CaseClause{List: []ast.Expr{&ast.BasicLit{Kind: token.INT, Value: fmt.Sprint(idx)}}, Body: body})
				idx++
			}
			fn := "Select"
			if hasDefault {
				fn = "SelectDefault"
			} else {
				// keeps "select with return in every case" a terminating statement
				sw.Body.List = append(sw.Body.List, &ast.CaseClause{Body: []ast.Stmt{&ast.ExprStmt{X: call(ast.NewIdent("panic"), &ast.BasicLit{Kind: token.STRING, Value: `"vs: select returned no case"`})}}})
			}
			sw.Tag = call(vsel(fn), cases...)
			c.Replace(&ast.BlockStmt{List: append(pre, sw)})
		}
		return true
	})
	return res.(*ast.File)
}
