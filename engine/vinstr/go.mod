module vinstr

go 1.23

require golang.org/x/tools v0.29.0
