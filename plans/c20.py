"""C20: audit report conversion (audit2html / audit2tex / audit2bash) is lossless."""


def setup(J):
    @J.register("C20")
    def plan_c20(tier, seed):
        jobs = [{"id": "C20-real", "prop": "C20", "kind": "c20", "mode": "single", "budget": 300, "oracles": [], "events_dep": False, "args": {"part": "real", "tier": tier}}]

        def enum(name, nshards, **args):
            for i in range(nshards):
                a = {"part": "enum", "tier": tier, "shard": str(i), "nshards": str(nshards)}
                a.update({k: str(v) for k, v in args.items()})
                jobs.append({"id": f"C20-{name}-{i}", "prop": "C20", "kind": "c20", "mode": "single", "budget": 900, "oracles": [], "events_dep": False, "args": a})

        if tier == "quick":
            enum("enum-f2", 15, fan=2, maxn=7, modes="one")
        else:
            enum("enum-f2", 16, fan=2, maxn=7, modes="all")
            enum("enum-f3", 16, fan=3, onlyfan=3, maxn=6, modes="one")
        return {"level": "exploration", "cli": True, "stages": [lambda ctx, prev: jobs],
                "rule": "exhaustive enumeration of audit trees (lineage DAGs up to isomorphism: depth <= 3 records on a path, fan-in <= 2 upstream files per record [thorough: also every shape with a fan-in-3 record and <= 6 records], <= 7 records, record without inputs = source file without producing task (zero times) or input-less task, upstream records may be shared = reached through two paths, incl. two output files of one task read by the same task) x every weak order (all order types incl. ties) of the task records' start times up to the DAG's automorphisms (sources: zero time) x {every task its own process, all tasks of one process} x {0,1,2} parameters and tags per task x {all times in UTC, alternating UTC/+02:00 notation} [quick: one of the 12 combinations per (shape, order), cycling; thorough: all 12 for fan-in <= 2]; each tree is written by scipipe's FileIP.WriteAuditLogToFile and converted by auditInfoToHTML/TeX/Bash of the tree under check (un-instrumented CLI build + in-process batch hook); Bash scripts of strictly causal trees are run by real bash in a directory holding only the source files; + 5 real workflows run natively (fresh and resumed), every audit file they leave converted through the CLI and the script executed; finish times run against start times; distinct_nontrivial = number of enumerated (shape, order, modes) cases + real audit files whose lineage has >= 2 records (cases are distinct by construction: isomorphic shapes and automorphic time assignments are generated once)",
                "assumptions": ["an entry of a report is one <table> element (HTML) / one tcolorbox environment (TeX) that mentions a lineage record ID; a command of the Bash script is a line equal to the record's command with or without the '../' prefixes scipipe records", "commands/parameter/tag texts are accepted raw, HTML-escaped or with '_' written '\\_'; a parameter or tag counts as shown when its name is followed within 4 non-alphanumeric characters by its value", "not judged (documentation silent): process names, times, TeX timeline and summary, the script's OutFiles guards, parameters/tags and source-file records in the Bash script, trees outside the stated bounds", "a violation is classed 'equal-start-times' (known finding) only when the listing is exactly what collapsing records with indistinguishable start times (same instant, same zone offset) produces: same number of entries, still ordered, in each such group one member as often as the group is large; a Bash script whose command list is already wrong is not executed", "generated commands are cat/echo/cp in the form scipipe records them; the expected file content is computed by the harness' model of these three commands", 'real workflows use the wall clock of the machine (their start times are distinct in practice); /bin/bash, cat, sed, tr, paste, sort, head, tail are trusted'],
                "distinct_nontrivial_fn": lambda rs: sum((r.get("extra") or {}).get("distinct_nontrivial", 0) for r in rs)}
