"""C15: placeholders and path modifiers expand as documented."""


def setup(J):
    @J.register("C15")
    def plan_c15(tier, seed):
        nshards = 14 if tier == "quick" else 12
        jobs = [{"id": f"C15-patterns-{i:02d}", "prop": "C15", "kind": "c15", "mode": "single", "budget": 900, "oracles": [], "events_dep": False,
                 "args": {"part": "patterns", "tier": tier, "shard": str(i), "nshards": str(nshards)}} for i in range(nshards)]
        for ps in ["y", "out"]:
            for tw in ([""] if tier == "quick" else ["0", "1"]):
                jobs.append({"id": "C15-defaultname-" + ps + ("-twice" + tw if tw else ""), "prop": "C15", "kind": "c15", "mode": "single", "budget": 900, "oracles": [], "events_dep": False,
                             "args": {"part": "defname", "tier": tier, "ports": ps, "twice": tw}})
        # the join modifier of an in-port ({i:x|join:SEP}): one- and multi-character separators (scenario and oracle of C18)
        for k, sep in ((2, " -I "), (3, ", "), (2, ",")):
            jobs.append(J.with_delay_fallback(J.wf("C15", "gjoin", k, 1, 2, "cmd", oracles=["nohang", "clean", "c18"], tier=tier, events_dep=False, extra=sep,
                                                   id=f"C15-join-sep-k{k}-{'-'.join(str(ord(c)) for c in sep)}")))
        # ... members given with ABSOLUTE paths: substituted as they are (no "../" in front)
        jobs.append(J.with_delay_fallback(J.wf("C15", "gjoin", 2, 1, 2, "cmd", oracles=["nohang", "clean", "c18"], tier=tier, events_dep=False, extra=" ", abs_src=True, id="C15-join-absolute-members")))
        # ... and modifiers behind the join: applied to every member, not to the joined string
        for k, sep, mod in ((2, ",", "%.txt"), (3, " ", "basename"), (3, " -I ", "%.txt")):
            jobs.append(J.with_delay_fallback(J.wf("C15", "gjoin", k, 1, 2, "cmd", oracles=["nohang", "clean", "c18"], tier=tier, events_dep=False, extra=sep + "|" + mod,
                                                   id=f"C15-join-mod-k{k}-{'-'.join(str(ord(c)) for c in sep)}-{mod.replace('/', '_').replace('%', 'pct')}")))
        q = tier == "quick"
        rule = (
            "exhaustive enumeration of a finite pattern grammar x value alphabet, every case built through the public API (Workflow.NewProc, Process.SetOut, NewTask called like Process.createTasks does) in one controlled execution and compared with a reference model written from docs/writing_workflows.md and README.md. "
            "Items = {literal, {i:x}, {i:u}, {o:y} (commands only), {p:z}, {p:q}, {t:w}} x modifier chains over {basename, dirname, %.txt, %_s, s/a/b/}; contexts = command pattern (Task.Command) and SetOut pattern (path of the out-IP). "
            + ("L1: one placeholder x every chain of length <= 2 x every value of its alphabet (4 in-paths, 3 parameter values, 2 tag values, 2 out-paths) x 4 occurrence shapes (P, P P, P lit P, lit P); "
               "L2: every ordered pair of items (chains <= 1) x every combination of values; L3: every ordered triple of items (chains <= 1) x 2 fixed value assignments; "
               if q else
               "L1: one placeholder x every chain of length <= 3 over the 5 modifiers + s/.txt// + %t x every value (11 in-paths incl. absolute, ../, search string twice, suffix = whole name; 7 parameter values; 4 tag values; 4 out-paths) x 4 occurrence shapes; "
               "L2: every ordered pair of items (chains <= 2, second ports <= 1; 2-3 literals) x every combination of values; L3: every ordered triple of items in which at most one item has a chain of length 2 (the others <= 1) x 3 fixed value assignments; ")
            + "MV: every placeholder of kind i/p/t (x chains) whose value is absent (in-port without IP, parameter / tag not in the map) or empty (parameter, tag), alone, doubled, and before / after / between every other item: the execution must end with exit != 0. "
            "Default path function: all identities over process names x 0-2 in-ports x 0-2 parameters x 0-2 tags x out-port names x extensions"
            + (" (3 process names, 2 names per map, 3 in-paths, 2 parameter values, 2 tag values, 2 port names, extensions none/txt/csv.gz)" if q else " (5 process names, 3 names per map, 4 extensions, out-port placeholder also occurring twice with the same extension)")
            + " + maps with 3 keys under all 6 iteration orders"
            + ": same name under every map-iteration order, different names for every pair of identities that differ in exactly one component, README form [input.]process.port[.ext] when there are no parameters / tags. "
            "+ three workflows with a joined in-port ({i:x|join:SEP}, SEP of 1-4 characters) judged by C18's oracle. distinct_nontrivial = distinct judged cases in which at least one modifier changes the result + distinct missing-value cases + distinct default names (cases are assigned to shards by a hash of the case text, duplicates are dropped inside a shard)"
        )
        return {"level": "exploration", "stages": [lambda ctx, prev: jobs],
                "rule": rule,
                "assumptions": [
                    "reference model = docs/writing_workflows.md 'Available path modifiers' applied left to right (s/a/b/ read as sed's substitute command without the g flag: where a occurs more than once the first occurrence is replaced); a case is NOT judged (only 'no placeholder text survives') where the documentation is silent: %suffix equal to the whole value, dirname of a file directly under /; counted per reason under coverage.scenarios[].extra",
                    "dirname of a value without any folder: documented result is 'only the folder path', i.e. the empty path; both spellings \"\" and \".\" are accepted",
                    "in a command an in-path is expected as seen from the task's execution directory, a direct sub-directory of the working directory: ../value for relative values, the value itself for absolute ones, and a bare file name when the chain contains basename (pinned by TestFormatCommand; that this resolves to the file is property C13's subject)",
                    "out-paths substituted into commands are relative and free of '..' (the encoding of ../ and / inside the execution directory is property C13's subject)",
                    "values come from the valid path alphabet [0-9A-Za-z/._-]; values that themselves look like placeholders or contain '|' are outside the enumerated alphabet",
                    "the join: modifier is judged only through three workflow scenarios with one- and multi-character separators (C18 explores it); {o:...} inside SetOut patterns, {os:...} and the interplay of one out-port placeholder occurring with AND without an extension annotation are not documented and not judged",
                    "default name: process names are already in the sanitised alphabet [a-z0-9_.-] (sanitizePathFragment folds case and other characters by design); an input's name is its file name (two inputs that differ only in their directory are not required to give different names); the in-port's own name is not a component",
                    "single-threaded construction code: one schedule per case (no concurrency in the code under test), run under the controlled runtime only so that Fail -> os.Exit is an outcome",
                ],
                "distinct_nontrivial_fn": lambda rs: sum((r.get("extra") or {}).get("distinct_nontrivial", 0) for r in rs)}
