"""C17: streaming outputs deliver the producer's bytes through a FIFO and leave no trace."""
import copy, os


def setup(J):
    @J.register("C17")
    def plan_c17(tier, seed):
        q = tier == "quick"
        def stage1(ctx, prev):
            jobs = []
            for n in ((1,) if q else (1, 2)):
                for size in ((0, 1, 65537) if q else (0, 1, 4096, 65537, 300000)):
                    for mx in (2 * n, 2 * n + 1):
                        if q and mx != 2 * n and size != 1:
                            continue
                        j = {"id": f"C17-n{n}-s{size}-m{mx}", "prop": "C17", "kind": "stream", "mode": "delay", "delay": 1, "budget": J.budget(tier, 40, 300), "oracles": [], "events_dep": False, "force_all": -1,
                             "args": {"n": str(n), "size": str(size), "max": str(mx)}}
                        if size == 1 and mx == 2 * n:
                            j["save_final"] = os.path.join(ctx["scratch"], "final", j["id"])
                            j["_first"] = True
                        jobs.append(j)
                        if size in (1, 65537) and mx == 2 * n:
                            # producer with a streaming AND an ordinary output: its tasks are skipped on a re-run
                            mj = copy.deepcopy(j)
                            mj["id"] += "-mixed"
                            mj["args"]["mixed"] = "1"
                            if size == 1:
                                mj["save_final"] = os.path.join(ctx["scratch"], "final", mj["id"])
                                mj["_first"] = True
                            else:
                                mj.pop("save_final", None); mj.pop("_first", None)
                            jobs.append(mj)
                            if size == 1:
                                # the producer walks its out-IPs in map order: the other order too
                                oj = copy.deepcopy(mj)
                                oj["id"] += "-mo1"
                                oj["force_all"] = 1
                                oj.pop("save_final", None); oj.pop("_first", None)
                                jobs.append(oj)
            # deeper delay bound on the smallest scenario (the consumer side needs several hand-offs in a row to
            # overtake the producer between two of its steps)
            jobs.append({"id": "C17-n1-s0-m2-delay3", "prop": "C17", "kind": "stream", "mode": "delay", "delay": 3, "budget": J.budget(tier, 40, 600), "oracles": [], "events_dep": False, "force_all": -1,
                         "args": {"n": "1", "size": "0", "max": "2"}})
            # a regular file already at the streaming path (the port used to be an ordinary output)
            for size in (1, 65537):
                jobs.append({"id": f"C17-n1-s{size}-m2-stale", "prop": "C17", "kind": "stream", "mode": "delay", "delay": 1, "budget": J.budget(tier, 30, 200), "oracles": [], "events_dep": False, "force_all": -1,
                             "args": {"n": "1", "size": str(size), "max": "2", "stale": "1"}})
            # a REGULAR file at <path>.fifo: refusing is fine, streaming through it is not
            jobs.append({"id": "C17-n1-s65537-m2-regular-file-at-fifo-path", "prop": "C17", "kind": "stream", "mode": "delay", "delay": 1, "budget": J.budget(tier, 30, 200), "oracles": [], "events_dep": False, "force_all": -1,
                         "args": {"n": "1", "size": "65537", "max": "2", "stalefifo": "1"}})
            # the streaming output declared with an absolute path in a directory that does not exist yet
            for size in ((1,) if q else (1, 65537)):
                jobs.append({"id": f"C17-n1-s{size}-m2-absolute-stream-path", "prop": "C17", "kind": "stream", "mode": "delay", "delay": 1, "budget": J.budget(tier, 30, 200), "oracles": [], "events_dep": False, "force_all": -1,
                             "args": {"n": "1", "size": str(size), "max": "2", "absout": "1"}})
            # ... and with a path that steps through a parent directory (sub/../name.stream)
            jobs.append({"id": "C17-n1-s1-m2-stream-path-with-parent-step", "prop": "C17", "kind": "stream", "mode": "delay", "delay": 1, "budget": J.budget(tier, 30, 200), "oracles": [], "events_dep": False, "force_all": -1,
                         "args": {"n": "1", "size": "1", "max": "2", "midparent": "1"}})
            # the consumer has a second, ordinary in-port whose upstream closes long before the producer is done
            # (Run may not return before the pipe is removed); both orders of the consumer's in-port map
            for fa in (-1, 1):
                jobs.append({"id": f"C17-n1-s1-m2-consumer-second-in-port-mo{fa}", "prop": "C17", "kind": "stream", "mode": "delay", "delay": 1, "budget": J.budget(tier, 30, 200), "oracles": [], "events_dep": False, "force_all": fa,
                             "args": {"n": "1", "size": "1", "max": "2", "hdr": "1"}})
            # the consumer names the pipe through a modifier that looks at the end of the path ({i:in|%.fifo}.fifo)
            jobs.append({"id": "C17-n1-s1-m2-consumer-input-through-suffix-modifier", "prop": "C17", "kind": "stream", "mode": "delay", "delay": 1, "budget": J.budget(tier, 30, 200), "oracles": [], "events_dep": False, "force_all": -1,
                         "args": {"n": "1", "size": "1", "max": "2", "modcons": "1"}})
            # "whenever enough task slots exist for each producer and its consumer to run at the same time": multi-slot
            # producer and consumer (2 + 2 of 4 slots) next to an unrelated 2-slot task competing for the slots
            jobs.append({"id": "C17-n1-s1-m4-multi-slot-pair-and-side-task", "prop": "C17", "kind": "stream", "mode": "delay", "delay": 1 if q else 2, "budget": J.budget(tier, 30, 600), "oracles": [], "events_dep": False, "force_all": -1,
                         "args": {"n": "1", "size": "1", "max": "4", "cores": "2", "sidecores": "2"}})
            # two streamed items in flight: a pass-through process notes the order in which they leave the producer
            for size, mx in ((1, 4),) if q else ((1, 4), (65537, 4), (1, 5)):
                jobs.append({"id": f"C17-n2-s{size}-m{mx}-order", "prop": "C17", "kind": "stream", "mode": "delay", "delay": 1, "budget": J.budget(tier, 40, 300), "oracles": [], "events_dep": False, "force_all": -1,
                             "args": {"n": "2", "size": str(size), "max": str(mx), "spy": "1"}})
            return jobs
        def stage2(ctx, prev):
            jobs = []
            for r in prev:
                j = r["job"]
                if not j.get("_first") or r.get("error") or not os.path.isdir(j["save_final"]):
                    continue
                nj = copy.deepcopy(j)
                for k in ("base", "_first", "save_final"):
                    nj.pop(k, None)
                nj["id"] = j["id"] + "-rerun"
                nj["seed_dir"] = j["save_final"]
                nj["args"]["rerun"] = "1"
                nj["delay"] = 0
                nj["budget"] = 60
                jobs.append(nj)
                if nj["args"].get("mixed"):
                    # the skip decision walks the task's out-IPs in map order: the other order too
                    mj = copy.deepcopy(nj)
                    mj["id"] += "-mo1"
                    mj["force_all"] = 1
                    jobs.append(mj)
            return jobs
        return {"level": "model_checking", "stages": [stage1, stage2],
                "rule": "real mkfifo + real bash producer/consumer under the controlled scheduler (exec seam in async mode: child exits are observed only when no controlled thread can run, so the set of exited children is a function of the state): n in {1,2} streamed items, maxConcurrentTasks in {2n, 2n+1}, payload in {0, 1, 4096, 65537, 300000} bytes, all schedules with <= 1 delay (smallest scenario: <= 3 delays within the budget); then the history 'run again in place' (producers with a streaming AND an ordinary output: under both orders of the out-IP map); + a stale regular file at the streaming path / at the FIFO path before the run + a pass-through process noting the order of 2 streamed items + the streaming output declared with an absolute path in a new directory + a consumer with a second ordinary in-port (both orders of its in-port map); oracle: consumer bytes = payload, streamed items leave the producer in arrival order, a stale file is left untouched, no regular file at the streaming path, no FIFO / temp dir left, consumer audit names the producer upstream, second run terminates (no child stuck on a FIFO, judged from /proc/<pid>/stack) and leaves the consumer's output untouched",
                "assumptions": ["what happens inside the kernel pipe and the two bash processes is observed, not scheduled", "a child is declared stuck when every process of its tree sleeps in fifo_open/pipe_read/pipe_write/do_wait unchanged over 4 samples (cap 20 s)", "delay-bounded (k=1), not closed"]}
