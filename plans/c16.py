"""C16: only fully wired workflows run; RunTo executes exactly the upstream closure."""
import itertools

GRAPHS = {
    # graph: (processes, in-port edges count is discovered by the worker; listed here: edge indices of file/param edges)
    "g3": (["src", "p", "q"], 2),
    "g4": (["src", "p", "q", "r"], 3),
    "g5": (["src", "src2", "p"], 0),  # both edges feed the same in-port: omitting one leaves it connected
    "g6": (["src", "p", "q", "r", "j"], 5),
    "g6b": (["src", "src2", "p", "j"], 3),
    "g7": (["src", "p", "q", "r"], 3),
    "g8": (["src", "p", "q"], 2),
    "g8b": (["src", "ps", "p"], 2),
    "g8c": (["src", "ps", "pp", "p", "q"], 4),
    "g11": (["src", "p", "last"], 2),
    "g8f": (["src", "src2", "ps", "p", "x"], 4),
    "g8i": (["ps", "gen", "fin", "extra"], 3),
}


def setup(J):
    @J.register("C16")
    def plan_c16(tier, seed):
        jobs = []
        q = tier == "quick"
        # (a) every single in-port / parameter port left unconnected
        for g, (procs, nedges) in GRAPHS.items():
            for e in range(nedges):
                for kind in (("func",) if q else ("func", "cmd")):
                    jobs.append(J.with_delay_fallback(J.wf("C16", g, 1, 1, 2, kind, oracles=["nohang", "c16-unwired"], tier=tier, events_dep=False, omit_edge=e, id=f"C16-unwired-{g}-e{e}-{kind}")))
        jobs.append(J.wf("C16", "g8", 1, 1, 2, "func", oracles=["nohang", "c16-unwired"], tier=tier, events_dep=False, omit_fromstr="p.a", id="C16-unfed-g8-p.a"))
        # ... and a connection that was made and then taken apart again through the public Disconnect of both ports
        for g, e in (("g3", 0), ("g3", 1), ("g4", 2), ("g7", 1)):
            jobs.append(J.with_delay_fallback(J.wf("C16", g, 1, 1, 2, "func", oracles=["nohang", "c16-unwired"], tier=tier, events_dep=False, omit_edge=e, args={"omit_how": "disconnect"}, id=f"C16-unwired-{g}-e{e}-func-connected-then-disconnected")))
        # (b) out-ports nobody consumes are drained automatically
        for g, drop in (("g7", "r"), ("g4", "q"), ("g6b", "j"), ("g3", "q")):
            jobs.append(J.with_delay_fallback(J.wf("C16", g, 2, 1, 2, "func", oracles=["nohang", "clean", "c04", "c05"], tier=tier, events_dep=False, drop_proc=drop, id=f"C16-dangling-{g}-minus-{drop}")))
        # a dead-end out-port on a process UPSTREAM of the driver (a process without out-ports): the sink drains it
        # while the driver runs (streams longer than the buffer)
        for i in (2, 3):
            jobs.append(J.with_delay_fallback(J.wf("C16", "g7c", i, 1, 2, "func", oracles=["nohang", "clean", "c04", "c05"], tier=tier, events_dep=False, id=f"C16-dangling-g7c-i{i}")))
        # RunTo keeps ONE consumer of a fan-out: the connection to the other must be cut (stream longer than the buffer)
        for t in ("q", "r"):
            jobs.append(J.with_delay_fallback(J.wf("C16", "g4", 3, 1, 2, "func", oracles=["nohang", "clean", "c04", "c05", "c16-runto"], tier=tier, events_dep=False, runto=[t], runtohow="name", budget=20, id=f"C16-runto-g4-i3-{t}-beyond-buffer")))
        # a dead-end PARAMETER out-port whose owner also feeds the process that ends the (dead-end) file stream:
        # both dead ends must be drained at the same time (streams longer than the buffers)
        for i in ((2, 3) if q else (2, 3, 4)):
            jobs.append(J.with_delay_fallback(J.wf("C16", "g8h", i, 1, 2, "func", oracles=["nohang", "clean", "c04", "c05"], tier=tier, events_dep=False, id=f"C16-dangling-g8h-i{i}")))
        # ... and the same with a consumer that has no out-ports: the dead-end parameter out-port is then the ONLY reason to run the sink
        for i in (2, 3):
            jobs.append(J.with_delay_fallback(J.wf("C16", "g8k", i, 1, 2, "func", oracles=["nohang", "clean", "c04", "c05"], tier=tier, events_dep=False, id=f"C16-dangling-g8k-i{i}")))
        # (c) every non-empty subset of processes as RunTo targets, by name / regex / process value
        for g, (procs, _) in GRAPHS.items():
            if q and g in ("g6",):
                continue
            hows = ("name", "regex", "procs") if (not q or g in ("g3", "g8b", "g11")) else ("name",)
            if q and g == "g8c":
                hows = ("name",)
            for n in range(1, len(procs) + 1):
                for sub in itertools.combinations(procs, n):
                    for how in hows:
                        items = 1 if q else 2
                        if g == "g8f":
                            items = 2  # more values than the parameter port's buffer (1) holds
                        jobs.append(J.with_delay_fallback(J.wf("C16", g, items, 1, 2, "func", oracles=["nohang", "clean", "c04", "c05", "c16-runto"], tier=tier, events_dep=False,
                                                               runto=list(sub), runtohow=how, budget=(20 if q else 120), id=f"C16-runto-{g}-{'+'.join(sub)}-{how}")))
        # shell-command bodies: unwired ports, one RunTo target per graph
        for g, e in (("g3", 0), ("g7", 1), ("g8", 1)) if q else ():
            jobs.append(J.with_delay_fallback(J.wf("C16", g, 1, 1, 2, "cmd", oracles=["nohang", "c16-unwired"], tier=tier, events_dep=False, omit_edge=e, id=f"C16-unwired-{g}-e{e}-cmd")))
        for g, targets in (("g3", ["p"]), ("g4", ["q"]), ("g8b", ["p"]), ("g11", ["p"]), ("g5", ["src"]), ("g7", ["q"])):
            jobs.append(J.with_delay_fallback(J.wf("C16", g, 1, 1, 2, "cmd", oracles=["nohang", "clean", "c04", "c05", "c16-runto"], tier=tier, events_dep=False, runto=targets, runtohow="name", budget=(20 if q else 120), id=f"C16-runto-{g}-{'+'.join(targets)}-name-cmd")))
        # a parameter port fed by a process AND by literal values: the closure must hold the process whatever
        # order the port's connections are walked in (+ every other map order forced)
        for targets in (["p"], ["q"]):
            jobs.append(J.with_delay_fallback(J.wf("C16", "g8e", 2, 1, 2, "func", oracles=["nohang", "clean", "c16-runto", "c16-closure-ran"], tier=tier, events_dep=False, runto=targets, runtohow="name", budget=(20 if q else 120), id=f"C16-runto-g8e-{'+'.join(targets)}-name")))
        # regular expressions are independent of each other; no patterns = nothing to run (refused)
        for g, targets in (("g4", ["q"]), ("g4", ["p"]), ("g7", ["r"]), ("g3", ["p"])):
            jobs.append(J.with_delay_fallback(J.wf("C16", g, 1, 1, 2, "func", oracles=["nohang", "clean", "c04", "c05", "c16-runto"], tier=tier, events_dep=False, runto=targets, runtohow="regex-ci", budget=20, id=f"C16-runto-{g}-{'+'.join(targets)}-regex-ci")))
        jobs.append(J.wf("C16", "g3", 1, 1, 2, "func", oracles=["nohang", "c16-unwired"], tier=tier, events_dep=False, runto=["-"], runtohow="regex-empty", id="C16-runto-g3-regex-no-patterns"))
        return {"level": "model_checking", "native": True, "stages": [lambda ctx, prev: jobs, J.maporder_stage("C16", [], tier, graphs=("g8e", "g3", "g11"), per_job=True, keep_mode=lambda j: "-unwired-" in j["id"])],
                "rule": "graphs G3-G8/G11: (a) every single file / parameter edge left unconnected -> exit != 0 and zero start events in every schedule; (b) consumers removed -> dangling out-ports, run completes with the reference result; (c) EVERY non-empty subset of processes as RunTo targets (by name, regex, process value): processes with start events = reference transitive closure over file and parameter edges, each task exactly once, reference files, C05 return predicate; all schedules by DPOR + sleep sets (delay bound 2 where not closed)",
                "assumptions": J.BASE_ASSUMPTIONS}
