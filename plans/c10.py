"""C10: every output carries a complete and faithful audit record.
C11: provenance survives restarts."""
import copy, itertools, os


def setup(J):
    @J.register("C10")
    def plan_c10(tier, seed):
        o = ["nohang", "clean", "c10", "c04"]
        jobs = []
        q = tier == "quick"
        def add(g, i, m, kind, **kw):
            jobs.append(J.with_delay_fallback(J.wf("C10", g, i, 1, m, kind, oracles=o, tier=tier, events_dep=False, **kw)))
        for kind in ("cmd", "func"):
            add("g3", 1, 1, kind); add("g3", 2, 2, kind) if kind == "cmd" else None
            add("g7", 1, 2, kind)
            add("g8", 1, 1, kind)
        add("g3", 1, 1, "cmd", extra="prepend", id="C10-g3-i1-m1-cmd-prepend"); add("g8d", 1, 1, "cmd")
        add("g8", 2, 1, "cmd", extra="escparam", id="C10-g8-i2-m1-cmd-backslash-escapes-in-param")
        add("g3", 1, 1, "cmd", extra="absout", id="C10-g3-i1-m1-cmd-absolute-output"); add("g2", 1, 1, "func", extra="subdir", id="C10-g2-i1-m1-func-subdir-output")
        # a coarse logical clock (700 ms per reading): tasks straddle second boundaries, durations exceed a second
        add("g3", 2, 1, "cmd", clock_step_ms=700, id="C10-g3-i2-m1-cmd-clock700ms"); add("g7", 1, 2, "func", clock_step_ms=1300, id="C10-g7-i1-m2-func-clock1300ms")
        add("g5", 2, 2, "cmd"); add("g6", 1, 1, "cmd"); add("g6b", 2, 1, "cmd"); add("g14a", 1, 1, "cmd"); add("g14a", 2, 2, "func"); add("g8b", 2, 1, "cmd"); add("g14b", 1, 1, "cmd"); add("g14b", 1, 2, "func")
        # a tag whose VALUE is the empty string (an optional field that is empty for this file) is a tag all the same
        add("g14a", 1, 1, "cmd", extra="emptytag", id="C10-g14a-i1-m1-cmd-empty-tag-value"); add("g14b", 1, 2, "func", extra="emptytag", id="C10-g14b-i1-m2-func-empty-tag-value")
        for sep, k in ((",", 2), (" ", 3), (",", 0)):   # k = 0: an EMPTY sub-stream (no member, so no Upstream entry)
            jobs.append(J.with_delay_fallback(J.wf("C10", "gjoin", k, 1, 2, "cmd", oracles=["nohang", "clean", "c10", "c18"], tier=tier, events_dep=False, extra=sep, id=f"C10-gjoin-k{k}-sep{ord(sep)}")))
        jobs.append(J.with_delay_fallback(J.wf("C10", "gjoin3", 2, 1, 2, "cmd", oracles=["nohang", "clean", "c10"], tier=tier, events_dep=False, extra=",", id="C10-gjoin3-k2")))
        # a stale audit file of an earlier run sits where an output is about to be produced (its data file is gone)
        for g, stale in (("g3", {"in0.txt.p": "x"}), ("g7", {"in0.txt.o1": "x", "in0.txt.o2": "y"})):
            sj = J.wf("C10", g, 1, 1, 1, "cmd", oracles=["nohang", "c10", "c04"], tier=tier, events_dep=False, id=f"C10-{g}-i1-m1-cmd-stale-audit-files")
            sj["stale_audit"] = stale
            sj.pop("_native", None)
            jobs.append(J.with_delay_fallback(sj))
        # IPs that exist before their files do (FileSplitter parts: their record is loaded lazily) fanned out to a tagging arm and a sibling
        jobs.append(J.with_delay_fallback(J.wf("C10", "gsplit14", 1, 1, 2, "cmd", oracles=["nohang", "c10"], tier=tier, events_dep=False, id="C10-gsplit14-i1-m2-cmd")))
        jobs.append(J.with_delay_fallback(J.wf("C10", "gsplit14", 1, 1, 1, "func", oracles=["nohang", "c10"], tier=tier, events_dep=False, id="C10-gsplit14-i1-m1-func")))
        # "each output file FINALIZED by a task is accompanied by <path>.audit.json" is a statement about
        # every instant: crash points of every schedule + failing sibling tasks
        for g, i, m, kind in (("g2", 1, 1, "cmd"), ("g3", 1, 1, "cmd"), ("g7", 1, 1, "func"), ("g2", 2, 2, "cmd")):
            jobs.append(J.with_delay_fallback(J.wf("C10", g, i, 1, m, kind, oracles=["nohang", "clean", "c10-instant"], tier=tier, events_dep=False, crash=True, disk_dep=(m == 1), id=f"C10-instant-{g}-i{i}-m{m}-{kind}")))
        for fk in ("exit-before", "exit-after"):
            jobs.append(J.with_delay_fallback(J.wf("C10", "g2", 2, 1, 2, "cmd", oracles=["nohang", "c10-instant"], tier=tier, events_dep=False, crash=True, fault={"proc": "p", "match": "in1.txt", "kind": fk}, id=f"C10-instant-g2-fault-{fk}")))
        if not q:
            add("g3", 3, 2, "cmd"); add("g4", 2, 2, "cmd"); add("g6", 2, 2, "cmd"); add("g7", 2, 2, "func"); add("g8", 2, 2, "func"); add("g5b", 2, 2, "cmd"); add("g12", 3, 2, "cmd")
        return {"level": "model_checking", "native": True, "stages": [lambda ctx, prev: jobs, J.maporder_stage("C10", o, tier), J.maporder_stage("C10", o, tier, graphs=("gjoin3",))] + J.opfault_stages("C10", ["nohang", "c10", "c04"], tier, [("g3", 1, 1, "cmd", ""), ("g7", 1, 1, "func", ""), ("g14a", 1, 1, "cmd", ""), ("g8", 1, 1, "cmd", "")]),
                "rule": "graphs G3 G5 G6 G6b G7 G8 G8b G14a + join scenario, command and Go-function bodies, every Mazurkiewicz trace (audit content must not depend on the schedule) + forced map-iteration orders; every finalized output's .audit.json parsed and compared field by field with the reference lineage tree: process name, exact command handed to the exec seam, params, tags (incl. tags attached by MapToTags on every descendant), out-files, Upstream keyed by input path recursively to the sources, start <= finish, duration >= 0 and equal to finish - start (also under a coarse logical clock: 700 / 1300 ms per reading); single injected I/O error (the n-th file-system operation fails with EIO, every n): stop, or complete with complete records",
                "assumptions": J.BASE_ASSUMPTIONS + ["IDs and absolute times are not compared", "the tagging-on-a-fan-out-arm scenario (G14) belongs to C12: its audit content depends on a data race (known finding there)"]}

    @J.register("C11")
    def plan_c11(tier, seed):
        q = tier == "quick"
        o_full = ["nohang", "clean", "c10", "c04", "c11-roundtrip"]
        o_resume = ["nohang", "clean", "c10", "c04", "c11-roundtrip", "c11-unchanged"]
        combos = [("g3", 1, 1, "cmd"), ("g3", 1, 1, "func"), ("g7", 1, 1, "cmd"), ("g14a", 1, 1, "cmd"), ("g8", 1, 1, "cmd"), ("g8", 2, 1, "cmd", "escparam"), ("g14", 1, 1, "cmd"), ("g14b", 1, 1, "cmd"), ("gjoin3", 2, 2, "cmd", ","), ("g3", 1, 1, "cmd", "absout")]
        if not q:
            combos += [("g6", 1, 2, "cmd"), ("g3", 2, 2, "cmd"), ("g8", 2, 2, "cmd"), ("g14a", 2, 2, "func"), ("g6b", 1, 1, "cmd"), ("g7", 1, 2, "cmd"), ("g3", 2, 2, "func")]
        runto = {"g3": [["p"]], "g7": [["p"], ["q"]], "g14a": [["p"], ["tg"]], "g14": [["p"]], "g14b": [["d"]], "g6b": [["p"]], "g6": [["p"], ["q"], ["q", "r"]], "g8": [["p"]]}

        def stage1(ctx, prev):
            jobs = []
            for combo in combos:
                g, i, m, kind = combo[:4]
                ex = {"extra": combo[4]} if len(combo) > 4 else {}
                sfx = f"-{combo[4]}" if len(combo) > 4 else ""
                # uninterrupted run: saves its final disk for (c); list of outputs for the subsets
                j = J.wf("C11", g, i, 1, m, kind, mode="dpor", oracles=o_full, tier=tier, events_dep=False, id=f"C11-full-{g}-i{i}-m{m}-{kind}{sfx}", args={"list_outputs": "1"}, **ex)
                j["save_final"] = os.path.join(ctx["scratch"], "final", j["id"])
                j["_full"] = True
                J.with_delay_fallback(j)
                jobs.append(j)
                # (a) every RunTo prefix ...
                for targets in ([] if sfx == "-absout" else runto.get(g, [])):   # (histories are relocated copies of the working directory: absolute paths recorded in them would point to the old place)
                    pj = J.wf("C11", g, i, 1, m, kind, mode="single", oracles=["nohang", "clean"], tier=tier, events_dep=False, runto=targets, id=f"C11-prefix-{g}-i{i}-m{m}-{kind}{sfx}-to-{'+'.join(targets)}", **ex)
                    pj["save_final"] = os.path.join(ctx["scratch"], "final", pj["id"])
                    pj["_prefix"] = True
                    jobs.append(pj)
            # a run killed between writing <out>.audit.json.tmp and the rename leaves that temp file (with a LONGER record) behind:
            # the next run's record must replace it completely
            for g, kind, paths in (("g3", "cmd", ["in0.txt.p", "in0.txt.p.q"]), ("g7", "func", ["in0.txt.o1", "in0.txt.o2"])):
                tj = J.wf("C11", g, 1, 1, 1, kind, mode="dpor", oracles=o_full, tier=tier, events_dep=False, id=f"C11-full-{g}-i1-m1-{kind}-leftover-audit-temp-files")
                tj["stale_tmp"] = paths
                tj.pop("_native", None)
                jobs.append(J.with_delay_fallback(tj))
            return jobs

        def stage2(ctx, prev):
            jobs = []
            for r in prev:
                j = r["job"]
                if j.get("_prefix"):
                    # ... then Run
                    nj = copy.deepcopy(j)
                    for k in ("base", "_prefix", "save_final", "runto"):
                        nj.pop(k, None)
                    nj["id"] = j["id"].replace("-prefix-", "-resume-")
                    nj["seed_dir"] = j["save_final"]
                    nj["mode"] = "dpor"
                    nj["oracles"] = o_resume
                    nj["budget"] = J.budget(tier, 20, 300)
                    nj["_fallback_delay"] = 1 if q else 2
                    jobs.append(nj)
                    # environment deviation: the n-th read of an existing audit file fails (EMFILE). The
                    # resumed run may stop, but may not go on with a made-up (empty) ancestor record
                    for nth in range(1, 4 if q else 7):
                        fj = copy.deepcopy(nj)
                        fj["id"] = nj["id"] + f"-readfault{nth}"
                        fj["read_fault"] = {"suffix": ".audit.json", "nth": nth}
                        fj["oracles"] = ["nohang", "c10", "c04", "c11-roundtrip", "c11-unchanged"]
                        fj["budget"] = J.budget(tier, 10, 120)
                        jobs.append(fj)
                if j.get("_prefix") and j["scen"]["graph"] == "g3":
                    # environment deviation: a lagging file system - the n-th .. (n+c-1)-th look at the ancestor's
                    # output (or its audit file) answers "no such file" although it is there
                    for nth, cnt in ((1, 1), (1, 2), (2, 1), (2, 2), (3, 1)):
                        fj = copy.deepcopy(nj)
                        fj["id"] = nj["id"] + f"-statlag{nth}x{cnt}"
                        fj["stat_fault"] = {"suffix": "", "match": "in0.txt.p", "nth": nth, "count": cnt}
                        # (a look that misses the ancestor's output makes its task run again: legitimate under this
                        # deviation, so the executed-task multiset is not judged; the lineage is)
                        fj["oracles"] = ["nohang", "c10", "c11-roundtrip", "c11-unchanged"]
                        fj["budget"] = J.budget(tier, 10, 120)
                        jobs.append(fj)
                if j.get("_full") and j["scen"].get("extra") != "absout":
                    units = (r.get("extra_info") or {}).get("task_outputs") or []
                    idxs = list(range(len(units)))
                    n = 0
                    for k in range(1, len(idxs) + 1):
                        for sub in itertools.combinations(idxs, k):
                            n += 1
                            if q and len(idxs) > 3 and k not in (1, len(idxs)) and n % 2:
                                continue
                            dele = []
                            for u in sub:
                                dele += list(units[u].keys())
                            nj = copy.deepcopy(j)
                            for kk in ("base", "_full", "save_final", "args", "_fallback_delay"):
                                nj.pop(kk, None)
                            nj["id"] = j["id"].replace("-full-", "-redo-") + "-d" + "".join(map(str, sub))
                            nj["seed_dir"] = j["save_final"]
                            nj["delete"] = dele
                            nj["mode"] = "dpor"
                            nj["oracles"] = o_resume
                            nj["budget"] = J.budget(tier, 20, 300)
                            nj["_fallback_delay"] = 1 if q else 2
                            jobs.append(nj)
                            if j["scen"]["graph"] == "gjoin3":
                                # the re-run walks the task's in-port map in whatever order the new process has
                                mj = copy.deepcopy(nj)
                                mj["id"] += "-mo1"
                                mj["force_all"] = 1
                                mj["mode"] = "delay"
                                mj["delay"] = 1
                                mj.pop("_fallback_delay", None)
                                jobs.append(mj)
            return jobs
        # (b) killed at any point, cleaned up, resumed: lineage of the resumed run
        def stage_crash(ctx, prev):
            jobs = []
            for (g, i, kind) in (("g3", 1, "cmd"), ("g14a", 1, "func")) if q else (("g3", 1, "cmd"), ("g14a", 1, "func"), ("g3", 2, "cmd"), ("g7", 1, "cmd")):
                j = J.wf("C11", g, i, 1, 1, kind, mode="dpor", oracles=["nohang", "clean"], tier=tier, events_dep=False, crash=True, disk_dep=True, id=f"C11-crash-{g}-i{i}-{kind}")
                j["_snap"] = True
                j["_depth2"] = False
                j["snap_dir"] = os.path.join(ctx["scratch"], "snaps", j["id"])
                jobs.append(j)
            return jobs
        def stage_recover(ctx, prev):
            inner = J.recovery_stage("C11", tier, "s", ["nohang", "c11-resumed"], crash=False)
            jobs = [j for j in inner(ctx, prev) if j.get("clean")]
            return jobs
        return {"level": "fault_enumeration", "stages": [stage1, stage2, stage_crash, stage_recover],
                "rule": "histories: (a) every RunTo prefix, then Run (+ the same with the n-th read of an existing audit file failing, n = 1..3 (6): stop or same lineage); (b) every distinct crash state (disk after every FS mutation of every schedule) + cleanup + resume; (c) complete run, EVERY non-empty subset of task outputs deleted with their audit files, re-run; each resumed run under every Mazurkiewicz trace; oracle: audit tree of every final output = reference lineage (process, command, params, tags, out-files of every ancestor), records of ancestors that were not re-executed byte-identical to those on disk, write -> UnmarshalAuditInfoJSONFile -> marshal is the identity",
                "assumptions": J.BASE_ASSUMPTIONS + ["IDs and times are excluded from the lineage comparison", "crash states of the two-output rename gap (C03 known finding) are judged by C03, not here"],
                "distinct_nontrivial_fn": lambda rs: sum((r.get("distinct_outcomes") or 0) for r in rs if r["job"].get("seed_dir"))}
