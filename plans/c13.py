"""C13: a file written at an output placeholder ends up exactly at the declared path."""

NSHARDS = 16

# bounds of the enumerated grammar per tier (the enumeration itself is harness/c13.go)
TIERS = {
    #            out-sweep depth, in-sweep depth, cross alphabet, extras-sweep depth
    "quick":    {"a_depth": 2, "b_depth": 2, "c_alpha": "small", "d_depth": 0},
    "thorough": {"a_depth": 3, "b_depth": 3, "c_alpha": "mid", "d_depth": 2},
}

RULE = (
    "exhaustive enumeration (no sampling) of the path grammar PATH(d) = PREFIX x SEG^k (k <= d directory segments) x SEG (file name), "
    "PREFIX = {'', './', '../', '../../', '/<existing absolute dir>/'}, SEG = {a, b.c, .h, x..y, d-e_f, __parent__, x__parent__y, __fsroot__, 9, e..}; "
    "sweep A: every output path of PATH(%(a_depth)s), input and extras rotate through 7 fixed inputs of all forms and 11 sets of <= 2 extra files "
    "(plain and nested names, names containing __parent__ / __fsroot__ / '..', and the sibling '{o:out}.sib'); "
    "sweep B: every input path of PATH(%(b_depth)s), output rotates through 7 fixed outputs of all forms; "
    "sweep C: output x input, both from PATH(1) over %(c_seg)s (pairs needing the same file, or a file where the other needs a directory, skipped); "
    "sweep D: every output path of PATH(%(d_depth)s) x every one of the 11 extras sets; duplicates between sweeps removed. "
    "Each case: fresh scratch tree (destination directory pre-existing for ../ and absolute forms, not existing for in-cwd forms), one-task workflow FileSource -> shell process, REAL bash runs "
    "'echo OUT > {o:out} && { test $(cat {i:in}) = IN || exit 41; } && [mkdir -p d &&] echo Xi > <extra i> ...' through the instrumented scipipe on the default schedule (single task: nothing to interleave); "
    "oracle on the whole tree afterwards: OUT exactly at the declared path and nowhere else, the command saw the input's bytes through {i:in} from inside its working directory (exit 41 otherwise), "
    "input untouched, the sibling at <declared>.sib, every other extra at <cwd>/<same relative name>, no other file than <declared>.audit.json, no _scipipe_tmp* directory, workflow did not exit; "
    "+ an input path stepping back over a symbolic link to a directory; + a joined in-port whose members have relative / absolute paths (each member must resolve from the task's working directory); "
    "violations are grouped by input class (form + placeholder/dotdot features of the paths, exact name for extras); "
    "distinct_nontrivial = number of DISTINCT (output, input, extras) cases run, not counting those where output and input are single plain names and there are no extras"
)


def setup(J):
    @J.register("C13")
    def plan_c13(tier, seed):
        b = TIERS["quick" if tier == "quick" else "thorough"]
        jobs = [{"id": "C13-paths-shard%02d" % i, "prop": "C13", "kind": "c13", "mode": "single", "budget": 100 if tier == "quick" else 900, "oracles": [], "events_dep": False,
                 "args": dict({k: str(v) for k, v in b.items()}, shard=str(i), nshards=str(NSHARDS), tier=tier)} for i in range(NSHARDS)]
        # process names are free text: a name with '/' (sub-folder style), with blanks and capitals, one shard each
        for k, pn in enumerate(("qc/count", "Map Reads", "a/../b")):
            jobs.append({"id": "C13-paths-procname%d" % k, "prop": "C13", "kind": "c13", "mode": "single", "budget": 100 if tier == "quick" else 900, "oracles": [], "events_dep": False,
                         "args": dict({kk: str(v) for kk, v in b.items()}, shard=str(k), nshards=str(NSHARDS * (4 if tier == "quick" else 1)), tier=tier, procname=pn)})
        # a JOINED in-port ({i:x|join:SEP}): every member resolves from inside the working directory of the task,
        # members given with relative and with absolute paths (scenario and oracle of C18, judged for C13)
        for k, sep, ab in ((2, " ", True), (1, ",", True), (2, " ", False)):
            jobs.append(J.with_delay_fallback(J.wf("C13", "gjoin", k, 1, 2, "cmd", oracles=["nohang", "clean", "c18"], tier=tier, events_dep=False, extra=sep, abs_src=ab,
                                                   id=f"C13-joined-inputs-k{k}-sep{ord(sep)}-{'absolute' if ab else 'relative'}")))
        # an input path that steps back over a symbolic link to a directory (lnk/../in.txt): ".." is resolved by the
        # kernel, a lexically cleaned path names another file (real bash, one task, one schedule)
        jobs.append({"id": "C13-input-behind-symlinked-directory", "prop": "C13", "kind": "c13symlink", "mode": "single", "budget": 60, "oracles": [], "events_dep": False, "force_all": -1, "args": {}})
        rule = RULE % dict(b, c_seg={"full": "SEG", "mid": "{a, b.c, .h, __parent__, x__parent__y, __fsroot__, e..}", "small": "{a, __parent__, __fsroot__, e..}"}[b["c_alpha"]])
        return {"level": "exploration", "stages": [lambda ctx, prev: jobs],
                "rule": rule,
                "assumptions": [
                    "process name = p, and one shard each under the names qc/count, Map Reads, a/../b (names are free text; the temp directory is derived from them)",
                    "reference model written from docs/writing_workflows.md + README only (placeholders are replaced by the actual file names; SetOut declares the output path; an .audit.json accompanies every output); it knows nothing about temp directories or the __parent__/__fsroot__ encoding",
                    "a file written at '{o:out}.sib' (substituted placeholder + suffix: the idiom of tools that write an index next to their output) is expected at '<declared path>.sib'; for in-cwd paths this is the statement's 'same relative location', for ../ and absolute destinations it is what TestExtraFilesFinalizePathsAbsolute pins",
                    "not judged: empty directories that appear (counted as stray_directories_not_judged), contents of the audit file, text of the formatted command",
                    "not enumerated: extra files whose relative name STARTS with __parent__ or __fsroot__/ (that is the library's own encoding of ../ and / destinations, ambiguous by construction); the sibling is not written when the relative output path's first directory is __fsroot__ (the library would move it to the root of the real file system, outside the scratch tree)",
                    "input x output x extras is not a full product beyond depth 1: deeper paths are combined by rotation through fixed partners (pairwise co-prime list lengths 7, 11, 10, so all pairs of file-name x partner co-occur)",
                    "paths outside the grammar (other segment names, depth > bound, 'random long paths') are not covered: sampling is outside the technique",
                ],
                "distinct_nontrivial_fn": lambda rs: sum((r.get("extra") or {}).get("cases_nontrivial", 0) for r in rs)}
