"""C14: temp directories are injective, stable and a single valid path segment."""


def setup(J):
    @J.register("C14")
    def plan_c14(tier, seed):
        shards = ["p|P", "pq", "p.q", "p q", "p/q|a/../b"]
        jobs = [{"id": f"C14-names-{i}", "prop": "C14", "kind": "c14", "mode": "single", "budget": 600, "oracles": [], "events_dep": False,
                 "args": {"names": s, "tier": tier}} for i, s in enumerate(shards)]
        # parameter / tag values that differ only in characters outside the path alphabet
        jobs.append({"id": "C14-values-outside-path-alphabet", "prop": "C14", "kind": "c14", "mode": "single", "budget": 600, "oracles": [], "events_dep": False,
                     "args": {"names": "p", "tier": tier, "vals": "<|>"}})
        jobs.append({"id": "C14-values-blank-vs-plus", "prop": "C14", "kind": "c14", "mode": "single", "budget": 600, "oracles": [], "events_dep": False,
                     "args": {"names": "p", "tier": tier, "vals": "a b|a+b"}})
        # tasks that differ only in a STREAMED input (real FIFOs, see C17): two producer/consumer pairs in flight at once
        jobs.append({"id": "C14-two-streamed-inputs-in-flight", "prop": "C14", "kind": "stream", "mode": "delay", "delay": 1, "budget": J.budget(tier, 30, 200), "oracles": [], "events_dep": False, "force_all": -1,
                     "args": {"n": "2", "size": "1", "max": "4", "only_classes": "unexpected-outcome,hang,wrong-bytes,missing-output,tempdir-left"}})
        return {"level": "exploration", "stages": [lambda ctx, prev: jobs],
                "rule": "exhaustive enumeration of task identities over a small alphabet (process names, also with blanks, capitals and slashes, x 0-2 in-ports with paths incl. a/b vs ab x 0-2 parameters x 0-2 tags (values also outside the path alphabet: '<' vs '>', 'a b' vs 'a+b') x sub-stream member lists of length 0-2), each built with the public constructor NewTask; ALL pairs compared by grouping on TempDir(); + names of every length 180..262; + same identity under every other map-iteration order; distinct_nontrivial = number of distinct temp-dir values",
                "assumptions": ["identities outside the alphabet are not covered (no sampling of 'random long' values: outside the technique)", "collisions are classified 'concat-ambiguity' when the two identities' pieces written without separators coincide (the known defect) and 'other' otherwise"],
                "distinct_nontrivial_fn": lambda rs: sum((r.get("extra") or {}).get("distinct_temp_dirs", 0) for r in rs)}
