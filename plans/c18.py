"""C18: a joined in-port receives the whole sub-stream, once, in order."""


def setup(J):
    @J.register("C18")
    def plan_c18(tier, seed):
        jobs = []
        o = ["nohang", "clean", "c18", "c04", "one-outcome"]
        ks = (0, 1, 2, 3) if tier == "quick" else (0, 1, 2, 3, 4)
        for k in ks:
            for sep in (" ", ",", ":"):
                for mod in ("", "basename", "%.txt"):
                    for buf in ((1,) if tier == "quick" else (1, 2)):
                        if tier == "quick" and k == 3 and (mod or sep != " "):
                            continue
                        jobs.append(J.with_delay_fallback(J.wf("C18", "gjoin", k, buf, 2, "cmd", oracles=o, tier=tier, events_dep=False, extra=sep + ("|" + mod if mod else ""),
                                                               id=f"C18-k{k}-b{buf}-sep{ord(sep)}-{mod or 'plain'}")))
        # separators of more than one character (the documented use: "join: -I ", "join:, ")
        for k in (2, 3):
            for sep in (" -I ", ", ", "::"):
                jobs.append(J.with_delay_fallback(J.wf("C18", "gjoin", k, 1, 2, "cmd", oracles=o, tier=tier, events_dep=False, extra=sep, id=f"C18-k{k}-long-sep-{'-'.join(str(ord(c)) for c in sep)}")))
        # members given with ABSOLUTE paths (they resolve from anywhere: no "../" in front)
        for k, sep in ((2, " "), (1, ",")):
            jobs.append(J.with_delay_fallback(J.wf("C18", "gjoin", k, 1, 2, "cmd", oracles=["nohang", "clean", "c18", "one-outcome"], tier=tier, events_dep=False, extra=sep, abs_src=True, id=f"C18-k{k}-sep{ord(sep)}-absolute-members")))
        # members arriving in an order that is NOT their name order
        for k, sep in ((3, " "), (2, ",")):
            jobs.append(J.with_delay_fallback(J.wf("C18", "gjoin", k, 1, 2, "cmd", oracles=o, tier=tier, events_dep=False, extra=sep, rev_src=True, id=f"C18-k{k}-sep{ord(sep)}-reverse-name-order")))
        # two joined in-ports of one task: each placeholder gets its own sub-stream
        for k in ((1, 2) if tier == "quick" else (0, 1, 2, 3)):
            for seps in ((",", "+"), (" ", ":")):
                jobs.append(J.with_delay_fallback(J.wf("C18", "gjoin2", k, 1, 2, "cmd", oracles=o, tier=tier, events_dep=False, extra=seps[0] + "|" + seps[1], id=f"C18-two-ports-k{k}-sep{ord(seps[0])}-{ord(seps[1])}"), 1))
        # members produced by ONE upstream task (both outputs of a two-output task end in the sub-stream): each is an upstream of its own
        for sep in (" ", ","):
            jobs.append(J.with_delay_fallback(J.wf("C18", "gjoin5", 1, 1, 2, "cmd", oracles=["nohang", "clean", "c18", "c10"], tier=tier, events_dep=False, extra=sep, id=f"C18-members-of-one-task-sep{ord(sep)}"), 1))
        # memory-level pass: the same scenario on the race-instrumented build, where assignments to struct fields are
        # scheduling points too (the carrier IP's sub-stream field is set by one goroutine and read by another)
        for k in (1, 2):
            mj = J.wf("C18", "gjoin", k, 1, 2, "cmd", oracles=o, tier=tier, events_dep=False, extra=" ", race=True, id=f"C18-mem-gjoin-k{k}")
            mj["no_race_report"] = True
            jobs.append(J.with_delay_fallback(mj, 1))
        return {"level": "model_checking", "race_too": True, "stages": [lambda ctx, prev: jobs, J.maporder_stage("C18", o, tier, graphs=("gjoin2",), per_job=True)],
                "rule": "src(k files) -> StreamToSubStream -> {i:x|join:SEP[|modifier]} for k in 0..3 (4; i.e. beyond the buffer size 1-2), SEP in {' ', ',', ':'} and the longer separators {' -I ', ', ', '::'}, modifier in {none, basename, %.txt}; every Mazurkiewicz trace (the drain in NewTask races with the upstream still sending); plus a task with TWO joined in-ports fed by two sub-streams; plus members given with absolute paths; plus members arriving in reverse name order; plus a memory-level pass on the race-instrumented build (field assignments are scheduling points); plus the two-port scenarios again with every other order of each range-over-map site forced (the task's in-port / sub-stream maps); oracle: exactly one task, argument string at the exec seam = member paths in emission order joined by SEP, each member resolves from the task's working directory, audit Upstream key set = member paths, one terminal outcome",
                "assumptions": J.BASE_ASSUMPTIONS}
