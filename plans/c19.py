"""C19: bundled components compute what they advertise."""
import copy, itertools


def setup(J):
    def comp(jid, tier, args, budget=None, **kw):
        j = {"id": "C19-" + jid, "prop": "C19", "kind": "comp", "mode": "dpor", "budget": budget or J.budget(tier, 30, 300), "oracles": [], "events_dep": False, "force_all": -1, "args": {k: str(v) for k, v in args.items()}}
        j.update(kw)
        return J.with_delay_fallback(j, 1)

    @J.register("C19")
    def plan_c19(tier, seed):
        q = tier == "quick"
        jobs = []
        # combinators: 1..3 ports x lengths 0..2 x every map-iteration variant
        for comp_name in ("filecombinator", "paramcombinator"):
            for ports in (1, 2, 3):
                for lens in itertools.product(range(0, 3), repeat=ports):
                    if ports == 3 and (q and sorted(lens) not in ([1, 1, 2], [0, 1, 2], [2, 2, 2], [1, 1, 1])):
                        continue
                    if ports == 3 and q and list(lens) != sorted(lens):
                        continue
                    variants = (0, 1) if ports == 1 else (range(0, 2) if ports == 2 else range(0, 6))
                    for v in variants:
                        if q and ports == 3 and v not in (0, 3, 5):
                            continue
                        mode = "dpor" if sum(lens) <= 3 else "delay"
                        jobs.append(comp(f"{comp_name}-l{''.join(map(str, lens))}-mo{v}", tier, {"comp": comp_name, "lens": ",".join(map(str, lens)), "buf": 1 if sum(lens) < 5 else 2},
                                         force_all=(v if v else -1), mode=mode, **({"delay": 1} if mode == "delay" else {})))
            # the documented use of the combinators: one process consuming all out-ports in lock-step
            for lens in (("2,2", "1,3", "2,1,2") if comp_name == "paramcombinator" else ("2,2", "1,3")):
                jobs.append(comp(f"{comp_name}-l{lens.replace(',', '')}-one-consumer", tier, {"comp": comp_name, "lens": lens, "buf": 1, "zip": 1}, mode="delay", delay=1))
            # streams beyond the buffer size, independent upstreams
            jobs.append(comp(f"{comp_name}-l32-buf1", tier, {"comp": comp_name, "lens": "3,2", "buf": 1}, mode="delay", delay=1))
            if not q:
                jobs.append(comp(f"{comp_name}-l2222", tier, {"comp": comp_name, "lens": "2,2,2,2", "buf": 2}, mode="delay", delay=1))
                jobs.append(comp(f"{comp_name}-l43-buf2", tier, {"comp": comp_name, "lens": "4,3", "buf": 2}, mode="delay", delay=1))
        # selector: every predicate outcome pattern
        for ports, L in ((1, 2), (2, 2), (1, 3)) if q else ((1, 3), (2, 2), (2, 3), (3, 2)):
            for mask in range(0, 1 << (ports * L)):
                jobs.append(comp(f"selector-p{ports}-l{L}-m{mask}", tier, {"comp": "selector", "ports": ports, "len": L, "mask": mask, "buf": 1}, mode="delay", delay=1 if q else 2, budget=15))
        # splitter: 0..7 lines x linesPerSplit 1..4 x final newline
        for n in range(0, 8):
            for per in (1, 2, 3, 4):
                for nl in (1, 0):
                    jobs.append(comp(f"splitter-n{n}-per{per}-nl{nl}", tier, {"comp": "splitter", "lines": n, "per": per, "newline": nl}, mode="delay", delay=0 if q else 1, budget=15))
        # a line longer than an I/O buffer (5000 bytes > bufio's 4096) in every position of a 3-line file
        for k in (0, 1, 2):
            jobs.append(comp(f"splitter-n3-per2-long-line{k}", tier, {"comp": "splitter", "lines": 3, "per": 2, "newline": 1, "longline": f"{k}:5000"}, mode="delay", delay=0 if q else 1, budget=15))
        # several files through ONE splitter instance
        for lens in (("4,5", "7,8,2", "0,3", "3,3") if q else ("4,5", "7,8,2", "0,3", "3,3", "1,1,1", "6,0,6", "2,9")):
            for per in (1, 3):
                jobs.append(comp(f"splitter-files-{lens.replace(',', '-')}-per{per}", tier, {"comp": "splitter2", "lens": lens, "per": per}, mode="delay", delay=0 if q else 1, budget=15))
        for k in (0, 1, 2, 3):
            jobs.append(comp(f"concatenator-k{k}", tier, {"comp": "concatenator", "k": k, "two": 0}))
            jobs.append(comp(f"concatenator-k{k}-two", tier, {"comp": "concatenator", "k": k, "two": 1}))
            if k in (1, 2):
                jobs.append(comp(f"concatenator-k{k}-over-longer-old-output", tier, {"comp": "concatenator", "k": k, "two": 0, "stale": 1}))
            jobs.append(comp(f"sources-k{k}", tier, {"comp": "sources", "k": k}, mode="delay", delay=1))
            if k < 3:
                jobs.append(comp(f"sources-k{k}-blank-lines", tier, {"comp": "sources", "k": k, "blank": 1}, mode="delay", delay=0 if q else 1))
            if k > 0:
                jobs.append(comp(f"sources-k{k}-no-final-newline", tier, {"comp": "sources", "k": k, "newline": 0}, mode="delay", delay=0 if q else 1))
        # Concatenator with GroupByTag: every assignment of {untagged, x, y} to 0..3 inputs (0..4 in thorough)
        for k in range(0, 4 if q else 5):
            for tg in itertools.product("-xy", repeat=k):
                jobs.append(comp(f"concatgroups-{''.join(tg) or 'none'}", tier, {"comp": "concatgroups", "tags": ",".join(tg)}, mode="delay", delay=0 if q else 1, budget=10))
        for k in ((1, 2, 3) if q else (0, 1, 2, 3, 4)):
            jobs.append(comp(f"globber-dependent-k{k}", tier, {"comp": "globberdep", "k": k}, mode="delay", delay=1, budget=20))
        trees = ["a.txt,b.txt,c.dat", "d/a.txt,d/b.txt,e/a.txt,a.txt", "x1.txt,x2.txt,y/x3.txt,x.tx"]
        for ti, tr in enumerate(trees):
            for pat in ("*.txt", "*", "d/*.txt", "*/a.txt", "x?.txt", "nomatch*", "*.txt;nomatch*;*.dat", "nomatch*;*.txt", "*.dat;*.txt;*/a.txt"):
                jobs.append(comp(f"globber-t{ti}-{pat.replace('/', '_').replace('*', 'S').replace('?', 'Q').replace(';', '+')}", tier, {"comp": "globber", "pattern": pat, "tree": tr}, mode="delay", delay=0, budget=10))
        return {"level": "model_checking", "stages": [lambda ctx, prev: jobs],
                "rule": "real components wired to recorder processes; FileCombinator/ParamCombinator: 1-3 (4) ports x lengths 0..2 (+ beyond the buffer with independent upstreams) x every map-iteration variant x schedules (DPOR closed for small, delay bound 1 otherwise): aligned tuples = Cartesian product, each once; IPSelectorSync: 1-3 ports x length <= 3 x ALL predicate outcome patterns; FileSplitter: 0..7 lines x 1..4 lines per split x {with, without} final newline, + 2-3 files through one instance; Concatenator: 0..3 inputs, one or two upstreams; with GroupByTag: every assignment of {untagged, x, y} to 0..3 (4) inputs; sources / readers: lists of length 0..3 (line files with and without a final newline, with blank lines inside and at the end; an empty item is an item); FileGlobber: 6 patterns and 3 pattern lists (with patterns that match nothing) x 3 trees against an independent matcher, dependent globber behind 1..3 (0..4) upstream tasks",
                "assumptions": J.BASE_ASSUMPTIONS + ["an exact multiple of the line limit produces a trailing empty part, which the statement allows", "selector streams have equal lengths (inconsistent closing is rejected by design)"]}
