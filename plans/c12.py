"""C12: no data races (happens-before monitor on the race-instrumented build)."""


def setup(J):
    @J.register("C12")
    def plan_c12(tier, seed):
        q = tier == "quick"
        jobs = []
        def add(g, i, m, kind="func", mode="dpor", **kw):
            j = J.wf("C12", g, i, 1, m, kind, mode=mode, oracles=["nohang", "clean"], tier=tier, events_dep=False, race=True, **kw)
            jobs.append(J.with_delay_fallback(j, 1 if q else 2))
        add("g2", 2, 2); add("g2", 1, 1, "cmd"); add("g5", 2, 2); add("g4", 1, 2); add("g7", 1, 2); add("g8", 1, 2); add("g13", 1, 2, cores=[1, 2]); add("g14a", 1, 1); add("g14d", 1, 1); add("g2", 0, 1, id="C12-g2-empty-stream"); add("g3", 0, 2, id="C12-g3-empty-stream"); add("g9", 0, 2, id="C12-g9-empty-streams"); add("g14e", 1, 2, mode="delay", delay=1, id="C12-g14e-i1-m2-delay")
        # fan-out of one out-port with a tagging component on one arm: closed search can be long -> delay bound first
        add("g14c", 1, 1, budget=120, id="C12-g14c-i1-m1-func-dpor")  # smallest fan-out with a tagging arm: closes (4.3k executions), the known AddTag race shows up at execution ~20
        add("g14", 1, 1, id="C12-g14-i1-m1-func-dpor")  # closed search: the known AddTag race shows up after some hundred executions
        add("g14", 1, 2, mode="delay", delay=1 if q else 2, id="C12-g14-i1-m2-func-delay")
        add("g3", 2, 2, mode="delay", delay=1, id="C12-g3-i2-m2-delay")
        add("g6b", 2, 2, mode="delay", delay=1, id="C12-g6b-i2-m2-delay")
        add("gjoin", 2, 2, "cmd", extra=",", id="C12-gjoin-k2")
        add("gsplit", 1, 2, mode="delay", delay=1, id="C12-gsplit-i1-m2-delay")
        # RunTo computes the upstream closure (walking the ports' RemotePorts maps) while parameter feeders started by FromStr are running
        add("g8", 1, 2, runto=["p"], id="C12-runto-g8-p")
        add("g8b", 1, 2, runto=["p"], id="C12-runto-g8b-p")
        # two Workflow objects in one program (package-level state: log handlers)
        add("g8", 1, 2, two_wf=True, id="C12-two-workflows-g8")
        add("g2", 1, 1, "cmd", two_wf=True, id="C12-two-workflows-g2-cmd")
        if not q:
            add("g14", 1, 2); add("g4", 2, 2); add("g6", 1, 2); add("g3", 2, 2); add("g14", 2, 2, mode="delay", delay=2, id="C12-g14-i2-m2-delay"); add("g12", 3, 2, mode="delay", delay=2, id="C12-g12-i3-delay")
        # two branches that share nothing but the sink, shell commands: the first command formatting of p and of q is
        # ordered by no channel (package-level state touched by NewTask / formatCommand shows up here)
        add("g9", 1, 2, "cmd", id="C12-g9-i1-m2-cmd")
        # a streaming out-port (real FIFO, see C17): the consumer gets the IP while the producing task is still running
        jobs.append({"id": "C12-stream-n1", "prop": "C12", "kind": "stream", "mode": "delay", "delay": 1, "budget": J.budget(tier, 30, 200), "oracles": [], "events_dep": False, "force_all": -1, "race": True,
                     "args": {"n": "1", "size": "1", "max": "2", "only_classes": "none"}})
        # ... and a producer with a streamed AND an ordinary output (its record reaches the consumer while the task still runs), both map orders
        for fa in (-1, 1):
            jobs.append({"id": f"C12-stream-n1-mixed-mo{fa}", "prop": "C12", "kind": "stream", "mode": "delay", "delay": 1, "budget": J.budget(tier, 30, 200), "oracles": [], "events_dep": False, "force_all": fa, "race": True,
                         "args": {"n": "1", "size": "1", "max": "3", "mixed": "1", "logcons": "1", "only_classes": "none"}})
        # components with their own sender goroutines
        for comp, lens in (("filecombinator", "1,2"), ("paramcombinator", "2,1"), ("filecombinator", "1,1,1")):
            jobs.append(J.with_delay_fallback({"id": f"C12-{comp}-l{lens.replace(',', '')}", "prop": "C12", "kind": "comp", "mode": "dpor", "budget": J.budget(tier, 30, 300), "oracles": [], "events_dep": False, "force_all": -1, "race": True,
                                               "args": {"comp": comp, "lens": lens, "buf": "1"}}, 1))
        return {"level": "model_checking", "race": True, "rev_map_order": ("C12-g7-i1", "C12-g8-i1", "C12-g5-i2", "C12-runto-g8-p"), "stages": [lambda ctx, prev: jobs],
                "rule": "race-instrumented build (every map operation and every access to a struct field that is assigned after construction is a visible memory access): fan-out, fan-in, multi-core, tagging, join, streaming and combinator scenarios under every Mazurkiewicz trace (delay bound where not closed); vector-clock happens-before monitor built from synchronisation edges only (spawn, send->recv, k-th recv -> (k+cap)-th send, close -> recv-closed, unlock -> lock, Done -> Wait): two conflicting accesses not ordered by it in ANY explored execution = data race, reported with both functions",
                "assumptions": J.BASE_ASSUMPTIONS + ["instrumented accesses: maps, mutable struct fields reached through a pointer-typed identifier, package-level variables assigned in a function body (checked against happens-before without being scheduling points); slice elements and right operands of && / || are not instrumented", "accesses in loop conditions are not instrumented"]}
