#!/bin/bash
# mutone.sh <seeded-dir-name> <tier> <Cxx>... : one seeded change against checks, on a scratch worktree
n=$1; T=$2; shift; shift
W=/tmp/mutwt1-$$
git -C /repo worktree add --detach $W HEAD -q || exit 3
(cd $W && git apply /verif/seeded/$n/patch.diff) || { echo "$n: patch does not apply"; git -C /repo worktree remove --force $W; exit 3; }
for p in "$@"; do
  out=$(VERIF_REPO=$W python3 /verif/vcheck.py $p --tier $T --no-evidence ${ONLY:+--only=$ONLY} 2>&1)
  echo "$n vs $p: exit=$? violations_printed=$(echo "$out" | grep -c '^VIOLATION') $(echo "$out" | grep -E '^(ENGINE|INSTRUMENT|BUILD)' | head -2 | cut -c1-200)"
  echo "$out" | grep -A1 "^VIOLATION" | grep -v "^VIOLATION\|^--" | head -2 | cut -c1-220
done
cd /; git -C /repo worktree remove --force $W
