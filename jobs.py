"""Job plans per property (which scenarios x configurations x modes are explored in each tier),
execution of a plan on the worker pool, aggregation into evidence + verdict."""
import json, os, re, sys, time, itertools, copy
from concurrent.futures import ThreadPoolExecutor

V = os.path.dirname(os.path.abspath(__file__))

QUICK_JOB_BUDGET = 30      # seconds of exploration per job in the quick tier
THOROUGH_JOB_BUDGET = 600


def budget(tier, q=QUICK_JOB_BUDGET, t=THOROUGH_JOB_BUDGET):
    return q if tier == "quick" else t


def wf(prop, graph, items, buf, mx, kind="func", mode="dpor", oracles=(), events_dep=True, tier="quick", **kw):
    scen = {"graph": graph, "items": items, "buf": buf, "max": mx, "kind": kind}
    for k in ("cores", "extra", "abs_src", "rev_src"):
        if k in kw:
            scen[k] = kw.pop(k)
    jid = kw.pop("id", None) or f"{prop}-{graph}-i{items}-b{buf}-m{mx}-{kind}-{mode}" + (f"-c{''.join(map(str, scen.get('cores', [])))}" if scen.get("cores") else "") + (f"-d{kw.get('delay')}" if mode == "delay" else "")
    job = {"id": jid, "prop": prop, "scen": scen, "mode": mode, "budget": kw.pop("budget", budget(tier)), "oracles": list(oracles), "events_dep": events_dep, "force_all": -1}
    job.update(kw)
    # scenarios that can also be run natively (real runtime, real bash, un-instrumented scipipe)
    if graph not in ("tasks", "slots", "tasks2wf", "nested", "gjoin", "gjoin2", "gjoin5") and mode == "dpor" and not job.get("crash") and not job.get("race") and not scen.get("abs_src") and not scen.get("rev_src") and scen.get("extra") in (None, "", "recorder", "recorder2", "subdir", "emptyparam-setout", "prepend") \
            and not job.get("seed_dir") and job.get("omit_edge") is None and not job.get("omit_fromstr") and not job.get("drop_proc") and not job.get("force_order") and not job.get("fault") and not job.get("external"):
        # (failing runs are not compared natively: os.Exit does not kill the task's child processes,
        # which the model's process-group kill does)
        job["_native"] = True
    return job


def with_delay_fallback(job, k=2):
    """mark a job so that, when DPOR does not close in its budget, a delay-bounded run follows"""
    job["_fallback_delay"] = k
    return job


def opfault_stages(prop, oracles, tier, combos):
    """single injected I/O error: stage A counts the file-system operations of the default schedule of
    each scenario, stage B lets the n-th one fail with EIO, for every n: the program may stop with a
    non-zero status, but if it reports completion everything the oracles judge must hold"""
    def stage_a(ctx, prev):
        jobs = []
        for (g, i, m, kind, extra) in combos:
            j = wf(prop, g, i, 1, m, kind, mode="single", oracles=["nohang"], events_dep=False, tier=tier, id=f"{prop}-iofault-count-{g}-i{i}-m{m}-{kind}" + (f"-{extra}" if extra else ""), **({"extra": extra} if extra else {}))
            j["op_fault_nth"] = -1
            j["_opcount"] = True
            j.pop("_native", None)
            jobs.append(j)
        return jobs
    def stage_b(ctx, prev):
        jobs = []
        for r in prev:
            j = r["job"]
            if not j.get("_opcount") or j.get("_consumed"):
                continue
            j["_consumed"] = True
            n = (r.get("extra") or {}).get("fs_ops_last_execution", 0)
            for k in range(1, n + 1):
                nj = copy.deepcopy(j)
                for kk in ("base", "_opcount", "_consumed"):
                    nj.pop(kk, None)
                nj["id"] = j["id"].replace("-count-", "-") + f"-op{k}"
                nj["op_fault_nth"] = k
                nj["mode"] = "delay"
                nj["delay"] = 0 if tier == "quick" else 1
                nj["oracles"] = list(oracles)
                nj["budget"] = budget(tier, 10, 60)
                jobs.append(nj)
        return jobs
    return [stage_a, stage_b]


def mem_jobs(prop, oracles, tier, combos, events_dep=False, **kw):
    """memory-level pass: the same scenarios on the race-instrumented build, where every map operation
    and every access to a mutable struct field is a scheduling point too (check-then-act on shared
    state outside a lock gets interleaved); races themselves are reported by C12 only"""
    out = []
    for (g, i, m) in combos:
        j = wf(prop, g, i, 1, m, "func", oracles=oracles, events_dep=events_dep, tier=tier, race=True, id=f"{prop}-mem-{g}-i{i}-m{m}", **kw)
        j["no_race_report"] = True
        out.append(with_delay_fallback(j, 1 if tier == "quick" else 2))
    return out


# ------------------------------------------------------------------------------------ plans

PLANS = {}


def plan(prop, tier, seed):
    if prop not in PLANS:
        print(f"no plan for {prop}")
        sys.exit(2)
    p = PLANS[prop](tier, seed)
    p["prop"] = prop
    return p


def register(prop):
    def deco(f):
        PLANS[prop] = f
        return f
    return deco


BASE_ASSUMPTIONS = [
    "the shim vs implements Go's channel/select/mutex/WaitGroup semantics (conformance corpus: DPOR+sleep vs unreduced explorer agree, run in setup_cmd and in every thorough run)",
    "scipipe's logic is compiled unchanged; only concurrency primitives and environment seams are substituted by vinstr",
    "bounds: the graphs, stream lengths, buffer sizes and slot counts listed under coverage.scenarios",
]


@register("C04")
def plan_c04(tier, seed):
    o = ["nohang", "clean", "c04", "one-outcome"]
    jobs = []
    def add(g, i, b, m, kind="func", **kw):
        jobs.append(with_delay_fallback(wf("C04", g, i, b, m, kind, oracles=o, events_dep=False, tier=tier, **kw)))
    if tier == "quick":
        for g in ("g2", "g3"):
            for (i, b, m) in ((0, 1, 1), (1, 1, 1), (2, 1, 1), (2, 1, 2), (3, 1, 1)):
                add(g, i, b, m)
        add("g2", 2, 1, 2, "cmd")
        add("g3", 2, 1, 2, "cmd")
        add("g2", 3, 1, 2)
        add("g2", 3, 2, 2)
        add("g4", 1, 1, 1); add("g4", 1, 1, 2); add("g4", 2, 1, 1)
        add("g5", 1, 1, 1); add("g5", 2, 1, 2)
        add("g7", 1, 1, 1); add("g7", 1, 1, 2); add("g7", 2, 1, 1)
        add("g8", 1, 1, 1); add("g8", 2, 1, 2)
        add("g8b", 2, 1, 1)
        add("g8g", 2, 1, 1); add("g8g", 3, 1, 2)
        # a partial run whose closure passes through a parameter connection two levels deep (ps -> pp -> p.a)
        add("g8c", 2, 1, 2, runto=["p"], id="C04-g8c-i2-m2-runto-p"); add("g8b", 2, 1, 1, runto=["p"], id="C04-g8b-i2-m1-runto-p")
        # ... and a parameter source that ALSO feeds a process outside the run set (more values than the buffer holds)
        add("g8f", 2, 1, 2, runto=["p"], id="C04-g8f-i2-m2-runto-p"); add("g4", 3, 1, 2, runto=["q"], id="C04-g4-i3-m2-runto-q"); add("g4b", 3, 1, 2, runto=["q"], id="C04-g4b-i3-m2-runto-q-two-consumers-dropped")
        add("g8j", 2, 1, 2, runto=["gen"], id="C04-g8j-i2-m2-runto-gen"); add("g8j", 2, 1, 2, runto=["gen2"], id="C04-g8j-i2-m2-runto-gen2"); add("g8j", 2, 1, 1)
        add("g7c", 2, 1, 1); add("g7c", 2, 1, 2)   # a dead-end out-port beside the driver's feed, stream longer than the buffer
        add("g6b", 2, 1, 2, rev_src=True, id="C04-g6b-i2-m2-reverse-name-order")   # pairing follows arrival order, not name order
        add("g6", 1, 1, 1)
        add("g9", 1, 1, 2)
        add("g14a", 1, 1, 1)
        add("g6b", 1, 1, 1); add("g6b", 2, 1, 2)
        add("g6c", 1, 1, 1); add("g6c", 2, 1, 2); add("g6c", 0, 1, 1)   # in-port streams of different lengths
        add("g6b", 2, 1, 2, pre={"in1.txt.p": "p.out(in=in1.txt;)"}, id="C04-g6b-i2-m2-pre1")
        add("g8", 3, 1, 2, "func", extra="emptyparam-setout", id="C04-g8-i3-m2-empty-param-in-path")
    else:
        add("g8", 3, 1, 2, "func", extra="emptyparam-setout", id="C04-g8-i3-m2-empty-param-in-path")
        add("g6b", 2, 1, 2, pre={"in1.txt.p": "p.out(in=in1.txt;)"}, id="C04-g6b-i2-m2-pre1")
        add("g6b", 3, 1, 3, pre={"in1.txt.p": "p.out(in=in1.txt;)", "in2.txt.p": "p.out(in=in2.txt;)"}, id="C04-g6b-i3-m3-pre12")
        for g in ("g2", "g3", "g4", "g5", "g5b", "g6", "g6b", "g7", "g7c", "g8", "g8b", "g8g", "g9", "g12", "g14", "g14a"):
            for i in (0, 1, 2, 3):
                for b in (1, 2):
                    for m in (1, 2, 3):
                        if g in ("g6", "g14", "g5b", "g4") and i == 3 and m == 3:
                            continue
                        add(g, i, b, m)
        for g in ("g2", "g3", "g7", "g8"):
            add(g, 2, 1, 2, "cmd")
        add("g12", 4, 2, 2)
    # memory-level pass: on the race-instrumented build every map operation / mutable-field access is a
    # scheduling point too, so check-then-act sequences on shared state outside a lock are interleaved
    for (g, i, m) in ([("g5", 1, 2), ("g4", 1, 2)] if tier == "quick" else [("g5", 1, 2), ("g4", 1, 2), ("g5", 2, 2), ("g5b", 1, 2), ("g7", 1, 2), ("g8b", 1, 2), ("g6", 1, 2)]):
        j = wf("C04", g, i, 1, m, "func", oracles=o, events_dep=False, tier=tier, race=True, id=f"C04-mem-{g}-i{i}-m{m}")
        j["no_race_report"] = True
        jobs.append(with_delay_fallback(j, 1 if tier == "quick" else 2))
    # a process with a STREAMED and an ordinary out-port (real FIFO, see C17): the ordinary output reaches its consumer too
    for fa in (-1, 1):
        jobs.append({"id": f"C04-stream-mixed-out-ports-mo{fa}", "prop": "C04", "kind": "stream", "mode": "delay", "delay": 0, "budget": budget(tier, 20, 120), "oracles": [], "events_dep": False, "force_all": fa,
                     "args": {"n": "1", "size": "1", "max": "3", "mixed": "1", "logcons": "1", "only_classes": "ordinary-output-not-delivered,hang,unexpected-outcome"}})
    # bundled components that feed SEVERAL out-ports of one consumer (combinators): every tuple is delivered, streams longer than the buffers
    for comp_name, lens in (("filecombinator", "2,2"), ("filecombinator", "1,3"), ("paramcombinator", "2,2")):
        jobs.append(with_delay_fallback({"id": f"C04-{comp_name}-l{lens.replace(',', '')}-one-consumer", "prop": "C04", "kind": "comp", "mode": "dpor", "budget": budget(tier, 30, 300), "oracles": [], "events_dep": False, "force_all": -1,
                                         "args": {"comp": comp_name, "lens": lens, "buf": "1", "zip": "1"}}, 1))
    return {"level": "model_checking", "native": True, "race_too": True, "rev_map_order": ("C04-g6b-i2-b1-m2", "C04-g8g-i2", "C04-g7c-i2-b1-m1", "C04-g8-i2", "C04-g9-"), "stages": [lambda ctx, prev: jobs, maporder_stage("C04", o, tier)],
            "rule": "every Mazurkiewicz trace (DPOR + sleep sets) of each scenario x configuration; delay bound 2 where the search does not close; MAPORDER pass: each map-range site forced to every other order on the default schedule with <= 1 delay; memory-level pass: some scenarios again on the race-instrumented build, where map operations and accesses to mutable struct fields are scheduling points too",
            "assumptions": BASE_ASSUMPTIONS + ["multi-in-port processes receive equally long streams; at most one process without out-ports"]}


def maporder_stage(prop, oracles, tier, graphs=None, per_job=False, keep_mode=None):
    """second pass: for every range-over-map site with >= 2 keys seen in pass 1 of the small
    scenarios, force every other order of that one site and explore (delay bound 1)."""
    def stage(ctx, prev):
        jobs = []
        seen = set()
        for r in prev:
            j = r["job"]
            if j.get("_maporder") or not r.get("map_sites") or j["mode"] != "dpor" or j.get("no_race_report") or "scen" not in j:
                continue
            sc = j["scen"]
            if (sc["items"] > (1 if tier == "quick" else 2) and sc["graph"] not in ("gjoin3", "g8f", "g8g", "g8e")) or sc["max"] > 2:
                continue
            if graphs is not None:
                if sc["graph"] not in graphs:
                    continue
            elif sc["graph"] == "gjoin3" or (tier == "quick" and sc["graph"] not in ("g3", "g4", "g7", "g5")):
                continue
            key = (sc["graph"], sc["items"], sc["max"], j["id"] if per_job else "")
            if key in seen:
                continue
            seen.add(key)
            for site in r["map_sites"]:
                for v in range(1, site["variants"]):
                    nj = copy.deepcopy(j)
                    nj.pop("base", None)
                    nj["id"] = j["id"] + f"-mo-{site['id']}-{v}"
                    nj["force_order"] = {site["id"]: v}
                    nj["mode"] = "delay"
                    nj["delay"] = 1 if tier == "thorough" else 0
                    nj["_maporder"] = True
                    if keep_mode and keep_mode(j):
                        # small scenarios: every schedule under the forced order (closed search)
                        nj["mode"] = "dpor"
                        nj.pop("delay")
                    else:
                        nj.pop("_fallback_delay", None)
                    jobs.append(nj)
        return jobs
    return stage


@register("C05")
def plan_c05(tier, seed):
    o = ["nohang", "clean", "c05"]
    jobs = []
    def add(g, i, b, m, kind="func", **kw):
        jobs.append(with_delay_fallback(wf("C05", g, i, b, m, kind, oracles=o, events_dep=True, tier=tier, **kw)))
    if tier == "quick":
        for g in ("g2", "g3"):
            for (i, b, m) in ((0, 1, 1), (1, 1, 1), (2, 1, 1), (2, 1, 2), (3, 1, 1)):
                add(g, i, b, m)
        add("g2", 2, 1, 2, "cmd")
        add("g1", 0, 1, 1)
        add("g10", 1, 1, 2); add("g10", 1, 1, 1)
        add("g11", 1, 1, 1); add("g11", 2, 1, 2)
        add("g4", 1, 1, 1); add("g5", 1, 1, 1); add("g7", 1, 1, 1); add("g8", 1, 1, 1); add("g9", 1, 1, 2); add("g8g", 2, 1, 1); add("g8g", 3, 1, 2)
        add("g12", 3, 1, 1)
        add("g8k", 2, 1, 2); add("g8k", 3, 1, 1)  # the ONLY dead end is a parameter out-port and a process without out-ports is the driver
        add("g10b", 1, 1, 2); add("g10b", 3, 1, 1); add("g7c", 2, 1, 2); add("g10b", 6, 1, 2, mode="delay", delay=1, id="C05-g10b-i6-b1-m2-delay1")  # stream well beyond the buffers: the sink must run concurrently with the driver
        # slot configurations: multi-core tasks competing for the slots (partial acquisition)
        add("g2", 2, 1, 2, cores=[2]); add("g13", 1, 1, 2, cores=[2, 2]); add("g13", 1, 1, 3, cores=[2, 2]); add("g3", 2, 1, 2, cores=[2, 1])
        add("g3", 1, 1, 1, runto=["p"], id="C05-g3-runto-p")
        add("g8f", 2, 1, 2, runto=["p"], id="C05-g8f-runto-p")  # a parameter source that also feeds a process outside the run set
        add("g11", 1, 1, 1, runto=["last"], id="C05-g11-runto-last")
        # a fan-out of which RunTo keeps ONE consumer: the other connection must be cut (stream longer than the buffer)
        add("g4", 3, 1, 2, runto=["q"], id="C05-g4-i3-runto-q"); add("g4", 3, 1, 2, runto=["r"], id="C05-g4-i3-runto-r")
    else:
        for g in ("g1", "g2", "g3", "g4", "g5", "g6", "g7", "g8", "g8g", "g9", "g10", "g10b", "g11", "g12"):
            for i in (0, 1, 2, 3):
                for b in (1, 2):
                    for m in (1, 2):
                        if g == "g1" and i > 0:
                            continue
                        add(g, i, b, m)
        add("g12", 4, 2, 2)
        add("g10b", 6, 1, 2, mode="delay", delay=2, id="C05-g10b-i6-b1-m2-delay2"); add("g10b", 9, 2, 2, mode="delay", delay=1, id="C05-g10b-i9-b2-m2-delay1")
        add("g2", 2, 1, 2, cores=[2]); add("g2", 3, 1, 3, cores=[2]); add("g13", 1, 1, 2, cores=[2, 2]); add("g13", 1, 1, 3, cores=[2, 2]); add("g13", 1, 1, 3, cores=[2, 2, 1]); add("g3", 2, 1, 2, cores=[2, 1])
        add("g3", 2, 1, 2, runto=["p"], id="C05-g3-runto-p")
        add("g11", 2, 1, 2, runto=["last"], id="C05-g11-runto-last")
        add("g11", 2, 1, 2, runto=["p"], id="C05-g11-runto-p")
        add("g8f", 2, 1, 2, runto=["p"], id="C05-g8f-runto-p"); add("g8f", 3, 2, 2, runto=["x"], id="C05-g8f-runto-x")
    # environment deviation: the rename into an absolute destination on another device fails (EXDEV): Run may
    # stop the program, but may not return as if the work were done
    jobs.append(with_delay_fallback(wf("C05", "g2", 1, 1, 1, "cmd", oracles=["nohang", "c05"], events_dep=True, tier=tier, extra="absout", xdev="abs", id="C05-g2-absout-other-device")))
    jobs.append(with_delay_fallback(wf("C05", "g3", 1, 1, 2, "cmd", oracles=["nohang", "c05"], events_dep=True, tier=tier, extra="absout", xdev="abs", id="C05-g3-absout-other-device")))
    # bundled components with sender goroutines of their own, streams longer than the buffers (deadlock freedom / return)
    for comp_name, lens, zp in (("paramcombinator", "2,2", "1"), ("paramcombinator", "3,1", "1"), ("paramcombinator", "2,2", "0"), ("filecombinator", "2,2", "0"), ("filecombinator", "2,2", "1")):
        jobs.append(with_delay_fallback({"id": f"C05-{comp_name}-l{lens.replace(',', '')}-beyond-buffer" + ("-one-consumer" if zp == "1" else ""), "prop": "C05", "kind": "comp", "mode": "dpor", "budget": budget(tier, 30, 300), "oracles": [], "events_dep": False, "force_all": -1,
                                         "args": {"comp": comp_name, "lens": lens, "buf": "1", "zip": zp}}, 1))
    jobs.extend(mem_jobs("C05", o, tier, [("g5", 1, 2), ("g10b", 1, 2)] if tier == "quick" else [("g5", 1, 2), ("g10b", 1, 2), ("g4", 1, 2), ("g11", 2, 2), ("g9", 1, 2)], events_dep=True))
    # streaming outputs (real FIFOs, see C17): first run, then the run again in place - when Run returns no FIFO / temp dir is left
    def stream_first(ctx, prev):
        j = {"id": "C05-stream-mixed-first", "prop": "C05", "kind": "stream", "mode": "delay", "delay": 0, "budget": budget(tier, 20, 120), "oracles": [], "events_dep": False, "force_all": -1,
             "args": {"n": "1", "size": "1", "max": "2", "mixed": "1", "only_classes": "fifo-left,tempdir-left"}}
        j["save_final"] = os.path.join(ctx["scratch"], "final", j["id"])
        j["_stream_first"] = True
        return [j]
    def stream_again(ctx, prev):
        jobs = []
        for r in prev:
            j = r["job"]
            if j.get("_stream_first") and not r.get("error") and os.path.isdir(j["save_final"]):
                nj = copy.deepcopy(j)
                for k in ("base", "_stream_first", "save_final"):
                    nj.pop(k, None)
                nj["id"] = "C05-stream-mixed-rerun"
                nj["seed_dir"] = j["save_final"]
                nj["args"]["rerun"] = "1"
                nj["delay"] = 1
                jobs.append(nj)
        return jobs
    # histories left by a killed run of a TWO-output task (an output may be final while the task's temp dir is still
    # there): re-run in place - if Run returns, everything is finalized and nothing is left
    def crash_g7(ctx, prev):
        cj = wf("C05", "g7", 1, 1, 1, "cmd", mode="dpor", oracles=["nohang"], tier=tier, events_dep=False, crash=True, disk_dep=True, id="C05-crash-g7-i1-m1-cmd")
        cj["_snap"] = True
        cj["snap_dir"] = os.path.join(ctx["scratch"], "snaps", cj["id"])
        cj.pop("_native", None)
        return [cj]
    rerun_g7 = recovery_stage("C05", tier, "s", ["nohang", "c05"], crash=False, only_r1=True)
    iof = opfault_stages("C05", ["nohang", "c05", "c04"], tier, [("g3", 1, 1, "cmd", ""), ("g3", 1, 1, "func", ""), ("g7", 1, 1, "cmd", ""), ("g2", 1, 1, "cmd", "subdir"), ("g11", 1, 1, "cmd", "")] + ([] if tier == "quick" else [("g4", 1, 2, "cmd", ""), ("g14a", 1, 1, "cmd", ""), ("g8", 1, 1, "func", "")]))
    return {"level": "model_checking", "native": True, "race_too": True, "rev_map_order": ("C05-g4-i3-runto", "C05-g10b-i1", "C05-g7c", "C05-g9-", "C05-g10-i1-b1-m2", "C05-g8g-i2", "C05-g13-i1-b1-m2"), "stages": [lambda ctx, prev: jobs, maporder_stage("C05", o, tier, graphs=("g8f", "g8g"), per_job=True)] + iof + [stream_first, stream_again, crash_g7, rerun_g7],
            "rule": "(+ every distinct crash state of a two-output task re-run in place: a run that returns left nothing behind) every Mazurkiewicz trace of each scenario with start/end/return events mutually dependent (every order not forced by happens-before); at the state where the main thread returns from Run: all started tasks ended, all reference outputs final, no temp dir / FIFO; no deadlock state; + a rename that fails with EXDEV (absolute destination on another device): stopping is fine, returning is not; every other map-iteration order forced for the parameter fan-out scenarios; single injected I/O error: the n-th file-system operation of the run fails with EIO, for every n (default schedule; thorough: + 1 delay) - stop, or return with everything in place; streaming producer with an ordinary second output: run, then run again in place - no FIFO / temp dir left when Run returns; memory-level pass: some scenarios again on the race-instrumented build, where map operations and accesses to mutable struct fields are scheduling points too",
            "assumptions": BASE_ASSUMPTIONS}


def multisets(maxc, k):
    return [list(c) for c in itertools.combinations_with_replacement(range(1, maxc + 1), k)]


@register("C06")
def plan_c06(tier, seed):
    o = ["nohang", "clean", "c06"]
    jobs = []
    # narrow-seam drivers: k ready tasks, every multiset of cores, every interleaving
    for drv, ks in (("tasks", (2, 3, 4) if tier != "quick" else (2, 3)), ("slots", (2, 3))):
        for mx in (1, 2, 3):
            for k in ks:
                for cores in multisets(mx, k):
                    jobs.append(with_delay_fallback(wf("C06", drv, 1, 1, mx, oracles=o, tier=tier, cores=cores)))
    if tier == "quick":
        jobs.append(with_delay_fallback(wf("C06", "tasks", 1, 1, 2, oracles=o, tier=tier, cores=[1, 1, 1, 1])))
        jobs.append(with_delay_fallback(wf("C06", "tasks", 1, 1, 3, oracles=o, tier=tier, cores=[2, 1, 1, 1])))
    # whole workflows: k = 2 sibling processes (closed), tasks of one process, two branches
    for mx in (1, 2, 3):
        for cores in multisets(mx, 2):
            jobs.append(with_delay_fallback(wf("C06", "g13", 1, 1, mx, oracles=o, tier=tier, cores=cores)))
    jobs.append(with_delay_fallback(wf("C06", "g2", 3, 1, 2, oracles=o, tier=tier)))
    jobs.append(with_delay_fallback(wf("C06", "g2", 2, 1, 1, oracles=o, tier=tier)))
    jobs.append(with_delay_fallback(wf("C06", "g9", 1, 1, 1, oracles=o, tier=tier)))
    jobs.append(with_delay_fallback(wf("C06", "g2", 2, 1, 2, "cmd", oracles=o, tier=tier)))
    # skipped tasks (pre-existing outputs) hold no slots and must not release anybody else's
    # a SKIPPED task takes no slot: with the only slot held by p's task for in1, p's task for in0 (output exists) must
    # still hand its output on, so that q's zero-core task for it can meet p's running task (they rendezvous)
    jobs.append(with_delay_fallback(wf("C06", "g3", 2, 1, 1, oracles=["nohang", "c06"], tier=tier, extra="barrier-skip", pre={"in0.txt.p": "p.out(in=in0.txt;)"}, id="C06-g3-i2-m1-skipped-task-takes-no-slot")))
    jobs.append(with_delay_fallback(wf("C06", "g2", 3, 1, 1, oracles=o, tier=tier, pre={"in0.txt.p": "p.out(in=in0.txt;)"}, id="C06-g2-i3-m1-pre0")))
    jobs.append(with_delay_fallback(wf("C06", "g2", 3, 1, 2, oracles=o, tier=tier, pre={"in1.txt.p": "p.out(in=in1.txt;)"}, id="C06-g2-i3-m2-pre1")))
    jobs.append(with_delay_fallback(wf("C06", "g2", 3, 2, 1, "cmd", oracles=o, tier=tier, pre={"in0.txt.p": "p.out(in=in0.txt;)", "in2.txt.p": "p.out(in=in2.txt;)"}, id="C06-g2-i3-m1-pre02-cmd")))
    # commands started through a launcher (Process.Prepend) count like any other
    jobs.append(with_delay_fallback(wf("C06", "g2", 2, 1, 1, "cmd", oracles=o, tier=tier, extra="prepend", events_dep=True, id="C06-g2-i2-m1-cmd-prepend")))
    jobs.append(with_delay_fallback(wf("C06", "g3", 2, 1, 2, "cmd", oracles=o, tier=tier, extra="prepend", events_dep=True, id="C06-g3-i2-m2-cmd-prepend")))
    # a process that asks for MORE cores per task than the workflow has: whatever the library does with it
    # (it refuses to start), the weighted sum of what executes never exceeds the maximum
    for mx, cores in ((2, [3, 1]), (1, [2, 1]), (2, [1, 3])):
        jobs.append(with_delay_fallback(wf("C06", "g13", 1, 1, mx, oracles=["nohang", "c06"], tier=tier, cores=cores, events_dep=True, id=f"C06-g13-oversize-m{mx}-c{''.join(map(str, cores))}")))
    # tasks connected by a FIFO (real mkfifo / bash, see C17): 2 producer/consumer pairs on 3 slots -
    # commands started and not yet returned never exceed the slots
    for size in ((1,) if tier == "quick" else (1, 65537)):
        jobs.append({"id": f"C06-stream-n2-s{size}-m3", "prop": "C06", "kind": "stream", "mode": "delay", "delay": 1, "budget": budget(tier, 40, 300), "oracles": [], "events_dep": False, "force_all": -1,
                     "args": {"n": "2", "size": str(size), "max": "3", "only_slots": "1"}})
    if tier != "quick":
        for mx in (2, 3):
            for cores in multisets(mx, 3):
                jobs.append(with_delay_fallback(wf("C06", "g13", 1, 1, mx, oracles=o, tier=tier, cores=cores)))
        jobs.append(with_delay_fallback(wf("C06", "g2", 3, 2, 3, oracles=o, tier=tier)))
        jobs.append(with_delay_fallback(wf("C06", "g3", 2, 1, 2, oracles=o, tier=tier)))
        jobs.append(with_delay_fallback(wf("C06", "g3", 3, 1, 2, oracles=o, tier=tier)))
        jobs.append(with_delay_fallback(wf("C06", "g4", 2, 1, 2, oracles=o, tier=tier)))
        jobs.append(with_delay_fallback(wf("C06", "g9", 2, 1, 2, oracles=o, tier=tier)))
    return {"level": "model_checking", "rev_map_order": ("C06-g13-i1-b1-m2", "C06-g2-i3-b1-m2", "C06-tasks-i1-b1-m2-func-dpor-c12"), "stages": [lambda ctx, prev: jobs],
            "rule": "all multisets of CoresPerTask in 1..max over k ready tasks (k<=4 on the narrow-seam drivers NewTask+Task.Execute and Inc/DecConcurrentTasks, k=2..3 sibling processes in whole workflows), every Mazurkiewicz trace with start/end events mutually dependent; invariant on every prefix of every explored event order: sum of cores of started-not-ended tasks <= maxConcurrentTasks",
            "assumptions": BASE_ASSUMPTIONS}


@register("C07")
def plan_c07(tier, seed):
    jobs = []
    o = ["nohang", "clean"]
    for drv, ks in (("tasks", (2, 3, 4) if tier != "quick" else (2, 3)), ("slots", (2, 3))):
        for mx in (1, 2, 3):
            for k in ks:
                for cores in multisets(mx, k):
                    cs = "".join(map(str, cores))
                    jobs.append(with_delay_fallback(wf("C07", drv, 1, 1, mx, oracles=o, tier=tier, cores=cores, events_dep=False, id=f"C07-{drv}-free-m{mx}-c{cs}")))
                    # work conservation: the tasks that fit together rendezvous on a barrier
                    if sum(cores) <= mx:
                        jobs.append(with_delay_fallback(wf("C07", drv, 1, 1, mx, oracles=o, tier=tier, cores=cores, extra="barrier", events_dep=False, id=f"C07-{drv}-barrier-m{mx}-c{cs}")))
    jobs.append(with_delay_fallback(wf("C07", "tasks", 1, 1, 4, oracles=o, tier=tier, cores=[2, 2], extra="barrier", events_dep=False, id="C07-tasks-barrier-m4-c22")))
    jobs.append(with_delay_fallback(wf("C07", "tasks", 1, 1, 4, oracles=o, tier=tier, cores=[2, 1, 1], extra="barrier", events_dep=False, id="C07-tasks-barrier-m4-c211")))
    # TWO workflows in one program, each with its own slots: a task of workflow A waiting for a slot must not keep
    # workflow B from using its free slots (first task of A and the task of B rendezvous); a task whose body runs an
    # inner workflow
    for mx, cores in ((1, [1, 1, 1]), (2, [2, 1, 1]), (2, [1, 1, 1, 2])):
        jobs.append(with_delay_fallback(wf("C07", "tasks2wf", 1, 1, mx, oracles=o, tier=tier, cores=cores, events_dep=False, id=f"C07-two-workflows-m{mx}-c{''.join(map(str, cores))}")))
    for mx, cores in ((1, [1, 1]), (2, [1, 2, 1])):
        jobs.append(with_delay_fallback(wf("C07", "nested", 1, 1, mx, oracles=o, tier=tier, cores=cores, events_dep=False, id=f"C07-nested-workflow-m{mx}-c{''.join(map(str, cores))}")))
    for mx in (2, 3):
        for cores in multisets(mx, 2):
            cs = "".join(map(str, cores))
            jobs.append(with_delay_fallback(wf("C07", "g13", 1, 1, mx, oracles=o, tier=tier, cores=cores, events_dep=False, id=f"C07-g13-free-m{mx}-c{cs}")))
            if sum(cores) <= mx:
                jobs.append(with_delay_fallback(wf("C07", "g13", 1, 1, mx, oracles=o, tier=tier, cores=cores, extra="barrier", events_dep=False, id=f"C07-g13-barrier-m{mx}-c{cs}")))
    jobs.append(with_delay_fallback(wf("C07", "g2", 2, 1, 2, oracles=o, tier=tier, extra="barrier", events_dep=False, id="C07-g2-barrier-2items-m2")))
    # tasks that ask for NO slot at all (CoresPerTask = 0) next to tasks that do
    for drv in ("tasks", "slots"):
        for mx, cores in ((1, [0, 1]), (2, [0, 2]), (2, [1, 0, 1]), (1, [0, 0])):
            jobs.append(with_delay_fallback(wf("C07", drv, 1, 1, mx, oracles=o, tier=tier, cores=cores, events_dep=False, id=f"C07-{drv}-zero-core-m{mx}-c{''.join(map(str, cores))}")))
    # work conservation inside ONE process: the first and the last of 3 (4) tasks rendezvous on 2 slots while the
    # ones in between come and go (a finished task does not keep a later one from starting)
    jobs.append(with_delay_fallback(wf("C07", "g2", 3, 1, 2, oracles=o, tier=tier, extra="barrier-first-last", events_dep=False, id="C07-g2-barrier-first-last-3items-m2")))
    jobs.append(with_delay_fallback(wf("C07", "g2", 3, 1, 2, oracles=o, tier=tier, extra="barrier-first-last", events_dep=False, pre={"in1.txt.p": "p.out(in=in1.txt;)"}, id="C07-g2-barrier-first-last-3items-m2-middle-skipped")))
    if tier != "quick":
        jobs.append(with_delay_fallback(wf("C07", "g2", 4, 1, 2, oracles=o, tier=tier, extra="barrier-first-last", events_dep=False, id="C07-g2-barrier-first-last-4items-m2")))
    # environment: the output of a queued task is created by somebody else at an arbitrary moment (every
    # placement of that write): whatever the task then does, the slots must come back
    for g, i, mx, cores, ext in ((("g2", 2, 1, None, "in1.txt.p"), ("g2", 2, 2, [2], "in1.txt.p")) if tier == "quick" else (("g2", 2, 1, None, "in1.txt.p"), ("g2", 3, 1, None, "in1.txt.p"), ("g2", 2, 2, [2], "in1.txt.p"), ("g3", 2, 1, None, "in1.txt.p"))):
        kw = {"cores": cores} if cores else {}
        jobs.append(with_delay_fallback(wf("C07", g, i, 1, mx, oracles=["nohang"], tier=tier, events_dep=False, external={ext: "made by somebody else"}, id=f"C07-{g}-i{i}-m{mx}-external-output" + ("-c2" if cores else ""), **kw)))
    # shell-command bodies (the slot is held around the exec seam)
    for mx, cores in ((2, [1, 2]), (2, [2, 2]), (3, [2, 2]), (2, [1, 1])):
        jobs.append(with_delay_fallback(wf("C07", "g13", 1, 1, mx, "cmd", oracles=o, tier=tier, cores=cores, events_dep=False, id=f"C07-g13-free-m{mx}-c{''.join(map(str, cores))}-cmd")))
    jobs.append(with_delay_fallback(wf("C07", "g2", 2, 1, 2, "cmd", oracles=o, tier=tier, cores=[2], events_dep=False, id="C07-g2-i2-m2-c2-cmd")))
    for mx in (1, 2):
        for cores in ([mx + 1], [1, mx + 1], [mx + 2, 1]):
            jobs.append(wf("C07", "g13", 1, 1, mx, oracles=["nohang", "c07-oversize"], tier=tier, cores=cores, events_dep=False, id=f"C07-oversize-m{mx}-c{''.join(map(str, cores))}"))
        # the oversize process in every position: alone, mid-stream, last without out-ports (it then is the
        # workflow's driver), next to a leaf that ends in the sink
        for g, cores in (("g2", [mx + 1]), ("g11", [1, mx + 1]), ("g11", [mx + 1, 1]), ("g10b", [1, 1, mx + 1]), ("g3", [1, mx + 1])):
            jobs.append(wf("C07", g, 1, 1, mx, oracles=["nohang", "c07-oversize"], tier=tier, cores=cores, events_dep=False, id=f"C07-oversize-{g}-m{mx}-c{''.join(map(str, cores))}"))
    # the oversize process is rejected also when all its outputs already exist (its tasks would be skipped)
    for g, mx, cores, pre in (("g2", 1, [2], {"in0.txt.p": "p.out(in=in0.txt;)"}), ("g3", 2, [1, 3], {"in0.txt.p.q": "q.out(in=p.out(in=in0.txt;);)"})):
        jobs.append(wf("C07", g, 1, 1, mx, oracles=["nohang", "c07-oversize"], tier=tier, cores=cores, events_dep=False, pre=pre, id=f"C07-oversize-{g}-m{mx}-c{''.join(map(str, cores))}-outputs-exist"))
    # slots come back after STREAMING tasks too (real FIFO, see C17): a task that needs every slot runs behind a streaming pair
    jobs.append({"id": "C07-stream-then-task-needing-all-slots", "prop": "C07", "kind": "stream", "mode": "delay", "delay": 1, "budget": budget(tier, 30, 200), "oracles": [], "events_dep": False, "force_all": -1,
                 "args": {"n": "1", "size": "1", "max": "2", "postcores": "2", "only_classes": "hang,unexpected-outcome,deadlock"}})
    # a workflow WITHOUT any slot (maxConcurrentTasks = 0): every process that asks for a core is oversize
    for g, cores in (("g2", [1]), ("g3", [1, 1]), ("g3", [0, 1]), ("g13", [1, 2])):
        jobs.append(wf("C07", g, 1, 1, 0, oracles=["nohang", "c07-oversize"], tier=tier, cores=cores, events_dep=False, id=f"C07-oversize-{g}-m0-c{''.join(map(str, cores))}"))
    return {"level": "model_checking", "rev_map_order": ("C07-g13-free-m2", "C07-tasks-free-m2-c12", "C07-g2-barrier-2items"), "stages": [lambda ctx, prev: jobs],
            "rule": "all multisets of CoresPerTask over k ready tasks (+ tasks with CoresPerTask = 0 among them) x every interleaving of the token-by-token acquisition (DPOR closed): no deadlock state; barrier variants: k tasks with sum(cores) <= max rendezvous inside their bodies, so a library that serialises them deadlocks; oversize CoresPerTask (also in a workflow with maxConcurrentTasks = 0, also when the outputs of the oversize process already exist): exit != 0 and no task of that process starts, in every schedule; environment deviation: the output of a queued task is created by an outside actor at every possible moment -> still no deadlock state",
            "assumptions": BASE_ASSUMPTIONS}


@register("C08")
def plan_c08(tier, seed):
    o = ["nohang", "clean", "c08"]
    jobs = []
    def add(g, i, b, m, **kw):
        jobs.append(with_delay_fallback(wf("C08", g, i, b, m, oracles=o, tier=tier, events_dep=False, extra="recorder", **kw)))
    add("g2", 2, 1, 2); add("g2", 3, 1, 3); add("g3", 2, 1, 2); add("g5b", 1, 1, 2); add("g2", 2, 2, 2)
    # histories x schedules: outputs of LATER items already on disk (their tasks are skipped and
    # must still wait for their turn)
    add("g2", 2, 1, 2, pre={"in1.txt.p": "p.out(in=in1.txt;)"}, id="C08-g2-i2-m2-pre1")
    add("g2", 3, 1, 3, pre={"in1.txt.p": "p.out(in=in1.txt;)", "in2.txt.p": "p.out(in=in2.txt;)"}, id="C08-g2-i3-m3-pre12")
    add("g2", 3, 1, 2, pre={"in1.txt.p": "p.out(in=in1.txt;)"}, id="C08-g2-i3-m2-pre1")
    add("g3", 2, 1, 2, pre={"in1.txt.p.q": "q.out(in=p.out(in=in1.txt;);)"}, id="C08-g3-i2-m2-preq1")
    # a process with two out-ports: the order holds on EACH of them
    # a slow head task with MANY finished tasks behind it: 7 tasks on 2 slots, the head task (holding one slot) ends only
    # when the last task has started, i.e. after tasks 1..5 went through the other slot; two out-ports
    jobs.append(wf("C08", "g7d", 7, 1, 2, oracles=o, tier=tier, events_dep=False, extra="recorder-bfl", mode="delay", delay=0, id="C08-g7d-i7-m2-slow-head-task-delay0"))
    jobs.append(wf("C08", "g7d", 7, 2, 2, oracles=o, tier=tier, events_dep=False, extra="recorder-bfl", mode="delay", delay=1, budget=20, id="C08-g7d-i7-b2-m2-slow-head-task-delay1"))
    # a LONG backlog (21 items, 2 slots) behind the third task, after two items were forwarded: the queue of started tasks grows
    # well beyond any initial capacity while its head is not its first slot
    jobs.append(wf("C08", "g2", 21, 1, 2, oracles=o, tier=tier, events_dep=False, extra="recorder-b3l", mode="delay", delay=0, budget=30, id="C08-g2-i21-m2-long-backlog-behind-third-task-delay0"))
    jobs.append(wf("C08", "g2", 21, 2, 2, oracles=o, tier=tier, events_dep=False, extra="recorder-b3l", mode="delay", delay=1, budget=25, id="C08-g2-i21-b2-m2-long-backlog-behind-third-task-delay1"))
    # more input sets than a process has room for at once (buffer 1): four and five items behind each other
    add("g2", 4, 1, 2, mode="delay", delay=1, id="C08-g2-i4-b1-m2-delay1"); add("g2", 5, 1, 3, mode="delay", delay=1, id="C08-g2-i5-b1-m3-delay1")
    add("g7", 2, 1, 2, id="C08-g7-i2-m2-two-out-ports"); add("g7", 3, 1, 3, id="C08-g7-i3-m3-two-out-ports")
    # arrival order that is NOT the name order of the files
    add("g2", 3, 1, 2, rev_src=True, id="C08-g2-i3-m2-reverse-name-order"); add("g3", 2, 1, 2, rev_src=True, id="C08-g3-i2-m2-reverse-name-order")
    # fan-out: two receivers on the observed port, each must see the items in order
    jobs.append(with_delay_fallback(wf("C08", "g2", 3, 1, 3, oracles=o, tier=tier, events_dep=False, extra="recorder2", id="C08-g2-i3-m3-two-receivers"), 1))
    jobs.append(with_delay_fallback(wf("C08", "g2", 2, 1, 2, oracles=o, tier=tier, events_dep=False, extra="recorder2", id="C08-g2-i2-m2-two-receivers"), 1))
    add("g2", 2, 1, 2, kind="cmd", id="C08-g2-i2-m2-cmd"); add("g3", 2, 1, 2, kind="cmd", id="C08-g3-i2-m2-cmd"); add("g5b", 1, 1, 2, kind="cmd", id="C08-g5b-i1-m2-cmd")
    if tier != "quick":
        add("g2", 3, 2, 2); add("g3", 3, 1, 3); add("g3", 3, 1, 2); add("g5b", 2, 1, 2); add("g5b", 2, 1, 3); add("g12", 3, 1, 2); add("g12", 4, 2, 3); add("g7", 2, 1, 2)
    # streaming out-ports: two streamed items in flight, a pass-through process notes their order (real FIFOs, see C17)
    for size, mx in ((1, 4),) if tier == "quick" else ((1, 4), (65537, 4)):
        jobs.append({"id": f"C08-stream-order-s{size}-m{mx}", "prop": "C08", "kind": "stream", "mode": "delay", "delay": 1, "budget": budget(tier, 40, 300), "oracles": [], "events_dep": False, "force_all": -1,
                     "args": {"n": "2", "size": str(size), "max": str(mx), "spy": "1", "only_order": "1"}})
    # a joined in-port fed with two sub-stream carriers whose sub-streams may be closed in either order
    jobs.append(with_delay_fallback({"id": "C08-joined-port-two-substreams", "prop": "C08", "kind": "comp", "mode": "dpor", "budget": budget(tier, 30, 300), "oracles": [], "events_dep": False, "force_all": -1,
                                     "args": {"comp": "joinorder", "buf": "1"}}, 1))
    jobs.extend(mem_jobs("C08", o, tier, [("g2", 2, 2), ("g5b", 1, 2)] if tier == "quick" else [("g2", 2, 2), ("g5b", 1, 2), ("g3", 2, 2), ("g2", 3, 2)], extra="recorder"))
    # environment deviation: ONE file-system operation answers with an error (a lagging / failing file system), for
    # every operation of the run: the program may stop, but whatever it emits is in arrival order
    # a lagging file system: ONE look at an existing final output of p answers "no such file" (the n-th such look),
    # under every schedule: the program may stop, but whatever it emits is in arrival order
    for nth in (1, 2, 3):
        j = wf("C08", "g2", 2, 1, 2, oracles=["nohang", "c08"], tier=tier, events_dep=False, extra="recorder", id=f"C08-g2-i2-m2-stat-lag-{nth}")
        j["stat_fault"] = {"suffix": ".p", "nth": nth}
        j.pop("_native", None)
        jobs.append(with_delay_fallback(j, 1))
    iof = opfault_stages("C08", ["nohang", "c08"], tier, [("g2", 2, 2, "func", "recorder"), ("g2", 3, 2, "cmd", "recorder")])
    return {"level": "model_checking", "native": True, "race_too": True, "rev_map_order": ("two-out-ports", "C08-g5b-i1-b1-m2-func", "C08-g2-i2-m2-two-receivers"), "stages": [lambda ctx, prev: jobs] + iof,
            "rule": "(+ single injected I/O error at every file-system operation of two scenarios; + a lagging file system: the n-th look at an existing output answers ENOENT, n <= 3, every schedule) every Mazurkiewicz trace (task completion order is just scheduling); a recorder process reads the observed out-port; emitted sequence == reference arrival order (single upstream) / per-upstream subsequences keep their order (fan-in); streaming out-port: 2 items in flight through real FIFOs, order noted by a pass-through process (<= 1 delay); joined in-port fed with two sub-stream carriers closed in either order; memory-level pass: some scenarios again on the race-instrumented build, where map operations and accesses to mutable struct fields are scheduling points too",
            "assumptions": BASE_ASSUMPTIONS}


# ------------------------------------------------------------------------------------ execution

def run_pool(ctx, jobs):
    only = ctx.get("only")
    if only:
        jobs = [j for j in jobs if only in j["id"]]
    ids = [j["id"] for j in jobs]
    if len(ids) != len(set(ids)):
        dup = sorted({i for i in ids if ids.count(i) > 1})
        print("PLAN-ERROR: duplicate job ids (two jobs would share one scratch directory): " + ", ".join(dup[:5]))
        sys.exit(2)
    for j in jobs:
        j.setdefault("replay_dir", ctx["replay_dir"])
    results = []
    with ThreadPoolExecutor(max_workers=ctx["pool"]) as ex:
        for r in ex.map(ctx["run_job"], jobs):
            results.append(r)
    return results


STAGE_WALL = {"quick": 400, "thorough": 1500}   # seconds: upper bound on sum(budgets)/workers of one stage


def fit_budgets(ctx, jobs):
    """scale the per-job exploration budgets of one stage so that even if no search closes the
    stage stays within STAGE_WALL (searches that close do not use their budget; a scaled-down
    budget only moves a scenario from 'closed' to 'bounded', which the evidence reports)"""
    cap = float(os.environ.get("VERIF_STAGE_WALL", STAGE_WALL.get(ctx.get("tier"), 1500)))
    pool = max(1, int(ctx.get("pool") or 16))
    est = sum(j.get("budget", 0) for j in jobs) / pool
    if est > cap:
        f = cap / est
        for j in jobs:
            if j.get("budget"):
                j["budget"] = max(10, round(j["budget"] * f, 1))
    return jobs


def rev_order_clones(plan, jobs):
    """reversed range-over-map order EVERYWHERE (force_all = 1) for the first-stage scenarios a plan names
    in "rev_map_order" (substrings of job ids): a cheap deviation (delay bound 1), one clone per scenario"""
    out = []
    pats = plan.get("rev_map_order") or ()
    for j in jobs:
        if "scen" not in j or j.get("force_order") or j.get("force_all", -1) != -1 or j.get("_list") or j.get("_snap") or j.get("_prefix") or j.get("_full"):
            continue
        if any(pt in j["id"] for pt in pats):
            nj = copy.deepcopy(j)
            for kk in ("base", "_fallback_delay", "_native"):
                nj.pop(kk, None)
            nj["id"] = j["id"] + "-mo1"
            nj["force_all"] = 1
            if nj["mode"] == "dpor":
                nj["mode"] = "delay"
                nj["delay"] = 1
            nj["budget"] = min(nj.get("budget", 30), 20)
            out.append(nj)
    return out


def execute(plan, ctx):
    results = []
    for si, stage in enumerate(plan["stages"]):
        jobs = stage(ctx, results)
        if si == 0:
            jobs = jobs + rev_order_clones(plan, jobs)
        jobs = fit_budgets(ctx, jobs)
        rs = run_pool(ctx, jobs)
        # delay-bounded fallback for searches that did not close in their budget
        fb = []
        for r in rs:
            j = r["job"]
            if j.get("_fallback_delay") is not None and not r.get("error") and not (r.get("stats") or {}).get("closed") and not r.get("violations"):
                for k in range(0, j["_fallback_delay"] + 1):
                    nj = copy.deepcopy(j)
                    for kk in ("base", "_full", "_prefix", "_snap", "_list", "_rerun", "_depth2", "save_final", "snap_dir"):
                        nj.pop(kk, None)
                    nj.pop("_fallback_delay")
                    nj["id"] = j["id"] + f"-fallback-d{k}"
                    nj["mode"] = "delay"
                    nj["delay"] = k
                    nj["budget"] = max(8, j["budget"] / 3)
                    fb.append(nj)
        results += rs
        if fb:
            results += run_pool(ctx, fit_budgets(ctx, fb))
    if plan.get("native"):
        n, problems = validate_native(plan, ctx, results)
        plan["validated"] = n
        results += problems
    return results


def native_key(base, code):
    """the normalised terminal outcome of a native run (same normalisation as outcomeKey() in the worker)"""
    ev = []
    try:
        for l in open(os.path.join(base, "events.log")):
            l = l.rstrip("\n")
            if l.startswith("E S:"):
                ev.append(l[2:])
    except FileNotFoundError:
        pass
    ev.sort()
    files = []
    root = os.path.join(base, "e")
    for dp, dn, fn in os.walk(root):
        rel = os.path.relpath(dp, root)
        if rel == "log" or rel.startswith("log/"):
            continue
        for f in fn:
            p = os.path.normpath(os.path.join(rel, f))
            if p.endswith(".audit.json") or p.endswith(".audit.json.tmp"):
                files.append(p)
            else:
                try:
                    files.append(p + "=" + open(os.path.join(dp, f), errors="replace").read())
                except OSError:
                    files.append(p + "=?")
    files.sort()
    oc = "" if code == 0 else f"exit:{code}"
    return oc + " | " + " ".join(ev) + " | " + " ".join(files)


def validate_native(plan, ctx, results, runs=3):
    """DESIGN.md 2.4(2): every native outcome (real runtime, real bash, un-instrumented scipipe) of a
    scenario whose exploration closed must be a member of the explored outcome set."""
    import subprocess, shutil
    binary = os.path.join(ctx["scratch"], "vnative")
    if not os.path.exists(binary):
        return 0, []
    validated, problems = 0, []
    for r in results:
        j = r["job"]
        if not j.get("_native") or r.get("error") or r.get("violations") or (r.get("stats") or {}).get("mode") != "dpor+sleep" or not (r.get("stats") or {}).get("closed") or not r.get("outcomes"):
            continue
        if len(r["outcomes"]) >= 40:
            continue
        for k in range(runs):
            base = f"/dev/shm/vn-{os.getpid()}-{abs(hash(j['id'])) % 10**8}-{k}"
            nj = {"id": j["id"], "scen": j["scen"], "base": base}
            for key in ("fault", "pre", "pre_audit", "runto", "runtohow"):
                if key in j:
                    nj[key] = j[key]
            jf = os.path.join(ctx["scratch"], "jobs", "native-" + j["id"].replace("/", "_") + ".json")
            json.dump(nj, open(jf, "w"))
            try:
                p = subprocess.run([binary, "-job", jf], stdout=subprocess.PIPE, stderr=subprocess.PIPE, timeout=120)
                key = native_key(base, p.returncode)
                if key in r["outcomes"]:
                    validated += 1
                else:
                    problems.append({"job": j, "error": "native run outcome is NOT in the explored outcome set of " + j["id"] + ": " + key[:400] + "  explored e.g.: " + list(r["outcomes"].keys())[0][:400]})
            except subprocess.TimeoutExpired:
                problems.append({"job": j, "error": "native run of " + j["id"] + " did not terminate within 120 s"})
            finally:
                shutil.rmtree(base, ignore_errors=True)
    return validated, problems


def finish(prop, tier, seed, plan, results, known, classify, wall, build_s, write=True):
    errors = [r for r in results if r.get("error")]
    tot = {"executions": 0, "states": 0, "transitions": 0, "sleep_blocked": 0}
    scen = []
    samples = []
    all_closed = True
    outcomes = 0
    orders = 0
    crash_states = 0
    for r in results:
        st = r.get("stats") or {}
        tot["executions"] += st.get("executions", 0)
        tot["states"] += st.get("states", 0)
        tot["transitions"] += st.get("transitions", 0)
        tot["sleep_blocked"] += st.get("sleep_blocked", 0)
        closed = bool(st.get("closed"))
        all_closed = all_closed and closed
        outcomes += r.get("distinct_outcomes", 0) or 0
        orders += r.get("distinct_event_orders", 0) or 0
        crash_states += r.get("distinct_crash_states", 0) or 0
        entry = {"job": r["job"]["id"], "scenario": r.get("scenario"), "mode": st.get("mode"), "closed": closed, "executions": st.get("executions"), "sleep_blocked": st.get("sleep_blocked"), "states": st.get("states"), "transitions": st.get("transitions"), "max_depth": st.get("max_depth"), "distinct_outcomes": r.get("distinct_outcomes"), "distinct_event_orders": r.get("distinct_event_orders"), "wall_s": round(r.get("wall", 0), 2)}
        if st.get("mode") == "delay-bounded":
            entry["delay_bound"] = st.get("delay_bound", 0)
        if r.get("distinct_crash_states"):
            entry["distinct_crash_states"] = r["distinct_crash_states"]
        if r.get("extra"):
            entry["extra"] = r["extra"]
        if r.get("races"):
            entry["races"] = r["races"]
        scen.append(entry)
        if r.get("samples") and len(samples) < 6:
            samples.append({"scenario": r.get("scenario"), "execution": r["samples"][0]})
    # violations
    vio_new, vio_known = [], {}
    for r in results:
        for v in r.get("violations") or []:
            k = classify(v["prop"], v["signature"], known)
            if k:
                vio_known.setdefault(k["id"], (k, []))[1].append(v)
            else:
                vio_new.append(v)
    for kid, (k, vs) in sorted(vio_known.items()):
        print(f"KNOWN-FINDING: property={k['property']} {k['what']} [{kid}; seen in {len(vs)} scenario(s), e.g. {vs[0]['signature'][:160]}]")
    shown = {}
    for v in vio_new:
        k = (v["prop"], v["class"])
        shown[k] = shown.get(k, 0) + 1
        if shown[k] <= 4:
            print(f"VIOLATION property={v['prop']} replay={v.get('replay') or 'n/a'}")
            print(f"    {v['class']}: {v['detail'][:400]}   [{v['signature'][:200]}]")
    for (pp, cls), n in shown.items():
        if n > 4:
            print(f"    ... {n - 4} more violations of class {cls} (property {pp}); all replay files are under /verif/replays/{pp}/")
    for e in errors:
        print(f"ENGINE-ERROR job={e['job']['id']}: {e['error'][:600]}")
    level = plan["level"]
    evals = tot["executions"]
    cov = {
        "states": tot["states"], "transitions": tot["transitions"],
        "traces_validated_against_impl": plan.get("validated", 0),
        "evaluations": evals,
        "distinct_nontrivial": plan.get("distinct_nontrivial_fn", lambda rs: orders + outcomes + crash_states)(results),
        "rule": plan["rule"] + (" + the scenarios whose ids contain one of %s again with EVERY range-over-map site in the reverse of its default order (delay bound 1; jobs '-mo1')" % (list(plan["rev_map_order"]),) if plan.get("rev_map_order") else "") + ("" if plan.get("distinct_nontrivial_fn") else " | distinct_nontrivial counts distinct (terminal outcome + event order + crash state) classes summed over scenarios"),
        "samples": samples or [{"note": "no sample"}],
        # exhaustive: every scenario's search ran out of alternatives WITHOUT a delay bound
        "exhaustive": bool(all_closed and not errors and not any((r.get("stats") or {}).get("mode") == "delay-bounded" for r in results)),
        "delay_bounded_scenarios": sum(1 for r in results if (r.get("stats") or {}).get("mode") == "delay-bounded"),
        "sleep_blocked_executions": tot["sleep_blocked"],
        "scenarios": scen,
        "jobs": len(results),
        "not_closed": [s["job"] for s in scen if not s["closed"]],
        "known_findings_seen": sorted(vio_known.keys()),
        "build_s": round(build_s, 1),
        "jobs_retried_after_engine_error": [r["job"]["id"] for r in results if r.get("retried_after")],
    }
    if plan.get("coverage_extra"):
        cov.update(plan["coverage_extra"](results))
    ev = {"property_id": prop, "tier": tier, "seed": seed, "level": level, "coverage": cov, "assumptions": plan["assumptions"], "wall_s": round(wall, 2), "violations": len(vio_new)}
    if write:
        os.makedirs(os.path.join(V, "evidence"), exist_ok=True)
        with open(os.path.join(V, "evidence", prop + ".json"), "w") as f:
            json.dump(ev, f, indent=1)
    print(f"{prop} {tier}: jobs={len(results)} executions={evals} states={tot['states']} transitions={tot['transitions']} closed={sum(1 for s in scen if s['closed'])}/{len(scen)} known={len(vio_known)} violations={len(vio_new)} errors={len(errors)} wall={wall:.1f}s")
    if vio_new:
        return 1
    if errors:
        return 2
    return 0


# ------------------------------------------------------------------------------------ faults / crashes

FAULT_KINDS = ["exit-before", "exit-mid", "exit-after", "killed", "missing", "missing-last"]


def fault_targets(graph, items):
    """(proc, match) pairs: every task of every command process of the graph"""
    procs = {"g2": ["p"], "g10": ["p"], "g10b": ["p", "q"], "g3": ["p", "q"], "g4": ["p", "q", "r"], "g6": ["p", "q", "r", "j"], "g7": ["p", "q", "r"], "g8": ["p", "q"], "g5": ["p"]}[graph]
    t = []
    for p in procs:
        for i in range(items):
            t.append((p, f"in{i}.txt"))
    return t


@register("C09")
def plan_c09(tier, seed):
    o = ["nohang", "c09", "c01"]
    jobs = []
    def add(g, i, b, m, kind, proc, match, fk):
        jobs.append(with_delay_fallback(wf("C09", g, i, b, m, kind, oracles=o, tier=tier, events_dep=False, fault={"proc": proc, "match": match, "kind": fk},
                                           id=f"C09-{g}-i{i}-m{m}-{kind}-{proc}-{match}-{fk}")))
    if tier == "quick":
        for (p, mt) in fault_targets("g3", 2):
            for fk in FAULT_KINDS:
                add("g3", 2, 1, 2, "cmd", p, mt, fk)
        for (p, mt) in fault_targets("g3", 1):
            for fk in ("exit-mid", "missing"):
                add("g3", 1, 1, 1, "func", p, mt, fk)
        for g in ("g3", "g7"):
            for (p, mt) in fault_targets(g, 1):
                add(g, 1, 1, 2, "func", p, mt, "panic-mid")
        for (p, mt) in fault_targets("g7", 1):
            for fk in ("exit-mid", "exit-after", "missing", "missing-last"):
                add("g7", 1, 1, 2, "cmd", p, mt, fk)
        for (p, mt) in fault_targets("g4", 1):
            add("g4", 1, 1, 2, "cmd", p, mt, "exit-after")
    else:
        for g, i, m in (("g3", 2, 2), ("g3", 3, 2), ("g4", 1, 2), ("g4", 2, 2), ("g6", 1, 2), ("g7", 2, 2), ("g8", 2, 2), ("g5", 2, 2)):
            for (p, mt) in fault_targets(g, i):
                for fk in FAULT_KINDS:
                    for kind in ("cmd", "func"):
                        add(g, i, 1, m, kind, p, mt, fk)
                add(g, i, 1, m, "func", p, mt, "panic-mid")
    # a failing task in a workflow whose sink drains a dead-end file port AND a dead-end parameter port
    for (p_, mt) in (("p", "in0.txt"), ("p", "in1.txt")):
        for fk in ("exit-after", "exit-mid"):
            add("g8g", 2, 1, 2, "cmd", p_, mt, fk)
    # a failing task in a branch that ends in the sink while ANOTHER process (without out-ports) drives the workflow
    for g in ("g10", "g10b"):
        for fk in ("exit-after", "exit-mid"):
            add(g, 1, 1, 2, "cmd", "p", "in0.txt", fk)
    # tasks that cannot be formed
    for extra in ("emptyparam", "badpath", "badpath-exists", "badpath-nonascii-letter", "badpath-nonascii-digit", "badpath-glob", "badpath-dollar", "missingtag", "missingtag-setout", "missingparam-setout"):
        for kind in ("cmd", "func"):
            if extra.startswith("badpath-") and kind == "func" and tier == "quick":
                continue
            jobs.append(wf("C09", "g8", 2, 1, 2, kind, oracles=["nohang", "c09-unformed"], tier=tier, events_dep=False, extra=extra, id=f"C09-g8-{extra}-{kind}"))
    # outputs that cannot come into being: a path component is a regular file / the name is too long (the
    # existence check gets an error other than "no such file"); the process is a LEAF (nothing downstream fails for it)
    for extra in ("notdir", "longname"):
        for kind in ("cmd", "func"):
            jobs.append(wf("C09", "g2", 1, 1, 1, kind, oracles=["nohang", "c09-unformed"], tier=tier, events_dep=False, extra=extra, id=f"C09-g2-{extra}-{kind}"))
    return {"level": "fault_enumeration", "rev_map_order": ("C09-g7-i1-m2-cmd-p-in0.txt-exit-after", "C09-g7-i1-m2-cmd-p-in0.txt-missing", "C09-g7-i1-m2-func-p-in0.txt-panic-mid", "C09-g3-i2-m2-cmd-p-in0.txt-exit-mid"), "stages": [lambda ctx, prev: jobs],
            "rule": "every choice of failing task x failure kind {exit before / mid / after writing, killed, declared output missing, run-time panic inside a Go function} + tasks that cannot be formed {empty parameter value, invalid output path (a space, a glob character, a dollar sign, a non-ASCII letter, a non-ASCII digit), missing tag in the command, missing tag / unknown parameter in the output-path pattern, an output below a regular file, an over-long output name}, each under every Mazurkiewicz trace of the concurrently running rest (DPOR closed, delay bound 2 otherwise); non-trivial = distinct (fault case, terminal outcome) pairs in which the fault changed the outcome",
            "assumptions": BASE_ASSUMPTIONS + ["failures are injected at the exec seam (command result) or raised by the Go function through scipipe.Failf"]}


def crash_explore_jobs(prop, tier, oracles, snap_root=None):
    """stage 1 of C01/C03: crash-mode explorations. One task in flight: every FS mutation also
    writes DISK (complete crash-state sets). Two in flight: path-dependent DPOR + delay bound."""
    jobs = []
    q = tier == "quick"
    def add(g, i, m, kind, disk_dep=True, mode="dpor", extra="", depth2=True, **kw):
        jid = f"{prop}-crash-{g}-i{i}-m{m}-{kind}" + (f"-{extra}" if extra else "") + ("" if disk_dep else "-pathdep") + (f"-d{kw.get('delay')}" if mode == "delay" else "")
        j = wf(prop, g, i, 1, m, kind, mode=mode, oracles=oracles, tier=tier, events_dep=False, crash=True, disk_dep=disk_dep, id=jid, **({"extra": extra} if extra else {}), **kw)
        if snap_root:
            j["_snap"] = True
            j["_depth2"] = depth2
        jobs.append(j)
    for kind in ("cmd", "func"):
        add("g2", 1, 1, kind)
        add("g2", 1, 1, kind, extra="subdir")
    add("g2", 2, 1, "cmd", depth2=not q)
    add("g7", 1, 1, "cmd", depth2=not q)
    add("g3", 1, 1, "cmd")
    add("g8", 1, 1, "cmd")
    add("g14a", 1, 1, "func")
    if prop == "C03":
        add("g14b", 1, 1, "func", depth2=False)   # a task that carries TWO tags (its temp-dir name hashes both)
        add("g14b", 1, 1, "func", extra="defaultout-e", depth2=False)   # ... and whose output has the DEFAULT name (which contains both tags)
    if prop == "C03":
        add("g11", 1, 1, "cmd", depth2=False)   # the last process has NO out-ports (its tasks have a temp dir all the same)
    add("g3", 1, 1, "cmd", extra="dirout")   # a directory as declared output: mkdir {o:out} && files inside
    # p's output declared with an absolute path (its temp path differs from its final path). Only g2: a
    # CONSUMER of an absolute path hashes that path into its temp-dir name, and recoveries run in a
    # relocated copy of the crash state (another scratch directory), where that name would differ
    add("g2", 1, 1, "cmd", extra="absout", depth2=False)
    add("g2", 1, 1, "cmd", extra="absout-mod", depth2=False)   # ... and the command names the output through a modifier chain
    add("g2", 1, 1, "cmd", extra="submod", depth2=False)
    # two tasks in flight
    add("g2", 2, 2, "cmd", disk_dep=False, mode="delay", delay=2 if not q else 1, depth2=not q)
    if not q or prop == "C01":
        add("g2", 2, 2, "cmd", disk_dep=False, depth2=False)
        add("g4", 1, 2, "cmd", disk_dep=False, mode="delay", delay=2 if not q else 1, depth2=False)
        add("g2", 2, 1, "func", depth2=False); add("g7", 1, 1, "func", depth2=False)
    if not q:
        add("g3", 2, 1, "cmd", depth2=False); add("g3", 2, 1, "func", depth2=False); add("g7", 2, 1, "cmd", depth2=False); add("g4", 1, 1, "cmd", depth2=False); add("g6", 1, 1, "cmd", depth2=False)
        add("g4", 1, 2, "cmd", disk_dep=False, depth2=False); add("g7", 1, 2, "cmd", disk_dep=False, depth2=False); add("g3", 2, 2, "cmd", disk_dep=False, mode="delay", delay=2, depth2=False)
        add("g14", 1, 1, "func", depth2=False)
    return jobs


@register("C01")
def plan_c01(tier, seed):
    o = ["nohang", "c01"]
    def stage1(ctx, prev):
        jobs = crash_explore_jobs("C01", tier, o + ["clean"])
        # faults: every task x every failure kind, crash points observed as well
        combos = [("g2", 1, 1), ("g3", 1, 1), ("g7", 1, 1)] if tier == "quick" else [("g2", 2, 1), ("g3", 2, 1), ("g7", 1, 1), ("g7", 2, 2), ("g4", 1, 2), ("g8", 1, 1)]
        for g, i, m in combos:
            for (p, mt) in fault_targets(g, i):
                for fk in FAULT_KINDS:
                    for kind in (("cmd",) if tier == "quick" else ("cmd", "func")):
                        jobs.append(with_delay_fallback(wf("C01", g, i, 1, m, kind, oracles=o, tier=tier, events_dep=False, crash=True, disk_dep=(m == 1),
                                                           fault={"proc": p, "match": mt, "kind": fk}, id=f"C01-fault-{g}-i{i}-m{m}-{kind}-{p}-{mt}-{fk}")))
                jobs.append(with_delay_fallback(wf("C01", g, i, 1, m, "func", oracles=o, tier=tier, events_dep=False, crash=True, disk_dep=(m == 1),
                                                   fault={"proc": p, "match": mt, "kind": "panic-mid"}, id=f"C01-fault-{g}-i{i}-m{m}-func-{p}-{mt}-panic-mid")))
        jobs.append(wf("C01", "g2", 1, 1, 1, "func", oracles=o + ["clean"], tier=tier, events_dep=False, crash=True, disk_dep=True, extra="writeidiom", id="C01-gofunc-write-idiom"))
        # environment deviation: the absolute destination is on another device, rename(2) answers EXDEV
        jobs.append(with_delay_fallback(wf("C01", "g2", 1, 1, 1, "cmd", oracles=o, tier=tier, events_dep=False, crash=True, disk_dep=True, extra="absout", xdev="abs", id="C01-crash-absout-other-device")))
        # two tasks in flight whose inputs have the same base name in different directories (their unfinished
        # files must not meet in one temp directory)
        jobs.append(with_delay_fallback(wf("C01", "g2", 2, 1, 2, "cmd", oracles=o + ["clean", "c04"], tier=tier, events_dep=False, crash=True, disk_dep=False, extra="samename", id="C01-crash-g2-i2-m2-same-base-names"), 1 if tier == "quick" else 2))
        # two processes whose names the sanitizer folds to the same text, same input, both in flight
        jobs.append(with_delay_fallback(wf("C01", "g4s", 1, 1, 2, "cmd", oracles=o + ["clean", "c04"], tier=tier, events_dep=False, crash=True, disk_dep=False, id="C01-crash-g4s-sanitize-equal-process-names")))
        # a file-writing component: every part FileSplitter finalizes is complete at every instant
        jobs.append(with_delay_fallback(wf("C01", "gsplit1", 1, 1, 1, "func", oracles=o + ["clean"], tier=tier, events_dep=False, crash=True, disk_dep=True, id="C01-crash-filesplitter-3lines")))
        if tier != "quick":
            jobs.append(with_delay_fallback(wf("C01", "gsplit1", 2, 1, 2, "func", oracles=o + ["clean"], tier=tier, events_dep=False, crash=True, disk_dep=False, id="C01-crash-filesplitter-2files")))
        # a command that APPENDS to its output (>>, resumable downloads, chunk writers): killed at every point, then
        # restarted in place and after cleanup - bytes of the killed command must never reach the final path
        # real bash: the shell of a command exits while a process substitution of it still writes a declared output
        jobs.append({"id": "C01-real-bash-process-substitution", "prop": "C01", "kind": "procsub", "mode": "single", "budget": 60, "oracles": [], "events_dep": False, "force_all": -1, "args": {}})
        # a command that makes its output a symbolic link (to a file with an absolute path): published by one rename like any other output
        jobs.append(with_delay_fallback(wf("C01", "g3", 1, 1, 1, "cmd", oracles=o + ["clean", "c04"], tier=tier, events_dep=False, crash=True, disk_dep=True, extra="linkout", id="C01-crash-g3-output-is-a-symbolic-link")))
        aj = wf("C01", "g2", 1, 1, 1, "cmd", oracles=o + ["clean"], tier=tier, events_dep=False, crash=True, disk_dep=True, extra="appendout", id="C01-crash-g2-appending-command")
        aj["_snap"] = True
        aj["snap_dir"] = os.path.join(ctx["scratch"], "snaps", aj["id"])
        jobs.append(aj)
        return jobs
    return {"level": "fault_enumeration", "stages": [stage1, recovery_stage("C01", tier, "s", ["nohang", "c01", "c04"], crash=False)],
            "rule": "(+ one real-bash run of a command whose process substitution outlives its shell: complete when Run returns) (+ a command that appends to its output: every crash state re-run in place and after cleanup, final bytes = reference) crash points: the disk after EVERY file-system mutation (partial writes, each rename, each step of temp-dir removal) of every explored schedule (one task in flight: FS mutations globally dependent, closed; two in flight: path-dependent DPOR + delay bound) x fault kinds {exit before/mid/after writing, killed, output missing, run-time panic of a Go function after half of its output} per task; + an absolute destination on another device (rename answers EXDEV); state predicate on every such disk: a declared output that exists holds the complete reference bytes and its task ended successfully, every other new data file is below a _scipipe_tmp* directory; distinct_nontrivial = distinct crash states + distinct (fault, outcome) pairs",
            "assumptions": BASE_ASSUMPTIONS + ["kill = process-group kill: completed syscalls persist (no power-loss model)", "the .audit.json side-car and parent directories created at the final location are not 'output files' in the statement's sense"],
            "distinct_nontrivial_fn": lambda rs: sum((r.get("distinct_crash_states") or 0) + (r.get("distinct_outcomes") or 0) for r in rs)}


def short_after(after):
    f = after.split()
    if not f:
        return "?"
    return f[0] + ("->" + os.path.basename(f[-1]) if len(f) > 1 else "")


def recovery_stage(prop, tier, depth_tag, oracles, crash=False, only_r1=False):
    """for every distinct crash state collected by the previous stage: R1 (re-run as is) and
    R2 (remove _scipipe_tmp* and *.fifo, re-run)"""
    def stage(ctx, prev):
        jobs = []
        for r in prev:
            j = r["job"]
            if not j.get("_snap") or j.get("_consumed") or not r.get("crash"):
                continue
            j["_consumed"] = True
            origin = (j.get("args") or {}).get("origin") or (r.get("scenario") or j["id"])
            seen = ctx.setdefault("seen_digests", set())
            for cs in r["crash"]:
                # recovery is a function of the disk state alone: one recovery per distinct digest
                dk = (origin, cs["digest"])
                if dk in seen:
                    ctx["dedup_skipped"] = ctx.get("dedup_skipped", 0) + 1
                    continue
                seen.add(dk)
                seed_dir = os.path.join(j["snap_dir"], str(cs["id"]))
                for clean in ((False,) if only_r1 else (False, True)):
                    nj = copy.deepcopy(j)
                    for k in ("base", "_snap", "_consumed", "_fallback_delay", "snap_dir", "fault"):
                        nj.pop(k, None)
                    nj["id"] = f"{j['id']}-{depth_tag}{cs['id']}-{'R2' if clean else 'R1'}"
                    nj["seed_dir"] = seed_dir
                    nj["clean"] = clean
                    d2 = bool(crash and clean and j.get("_depth2"))
                    nj.pop("_depth2", None)
                    if (j["scen"]["max"] > 1 or j["scen"]["graph"] in ("g7", "g4", "g6")) and tier == "quick":
                        nj["mode"] = "delay"   # recovery of two-in-flight / wide scenarios: delay bound 1 in the quick tier
                        nj["delay"] = 1
                    else:
                        nj["mode"] = "dpor"
                        nj["_fallback_delay"] = 1
                    nj["crash"] = d2
                    nj["disk_dep"] = bool(d2 and j["scen"]["max"] == 1)
                    nj["oracles"] = oracles
                    nj["budget"] = budget(tier, 30, 120)
                    nj["args"] = {"origin": origin, "crash_after": ((j.get("args") or {}).get("crash_after", "") + " then " if j.get("args") else "") + short_after(cs["after"])}
                    if d2:
                        nj["_snap"] = True
                        nj["snap_dir"] = os.path.join(ctx["scratch"], "snaps", nj["id"])
                    jobs.append(nj)
                    if j["scen"]["graph"] == "g14b" and (not clean or j["scen"].get("extra") == "defaultout-e"):
                        # the re-run is another process: its range-over-map orders are not those of the killed run
                        mj = copy.deepcopy(nj)
                        mj["id"] += "-mo1"
                        mj["force_all"] = 1
                        jobs.append(mj)
        return jobs
    return stage


@register("C03")
def plan_c03(tier, seed):
    def stage1(ctx, prev):
        jobs = crash_explore_jobs("C03", tier, ["nohang", "clean"], snap_root=True)
        for j in jobs:
            j["snap_dir"] = os.path.join(ctx["scratch"], "snaps", j["id"])
        return jobs
    o2 = ["nohang", "c03", "c01"]
    def stage_fifo(ctx, prev):
        # a FIFO left behind by a killed streaming run (real mkfifo, see C17): the re-run stops, it does not adopt it
        return [{"id": f"C03-leftover-fifo-s{size}", "prop": "C03", "kind": "stream", "mode": "delay", "delay": 1, "budget": budget(tier, 20, 120), "oracles": [], "events_dep": False, "force_all": -1,
                 "args": {"n": "1", "size": str(size), "max": "2", "leftover_fifo": "1", "only_leftover": "1"}} for size in ((1,) if tier == "quick" else (1, 65537))]
    stages = [stage1, recovery_stage("C03", tier, "s", o2, crash=True), recovery_stage("C03", tier, "t", o2, crash=False), stage_fifo]
    return {"level": "fault_enumeration", "stages": stages,
            "rule": "every DISTINCT disk state after every FS mutation of every explored schedule (crash points) of the crash scenarios; from each: R1 re-run as is (must refuse with exit != 0 when a temp dir / FIFO is left, else converge; for the two-tag scenario also with the other range-over-map order forced everywhere, as a new process may have) and R2 remove leftovers + re-run (must complete with exactly the reference files and contents, no re-execution and no modification of tasks finalized before the crash, nothing left); R2 runs are themselves explored with crash points and recovered from once more (crash during recovery, depth 2); every recovery run explored over all its schedules (DPOR closed); + a named pipe left at <path>.fifo by a killed streaming run: the re-run stops",
            "assumptions": BASE_ASSUMPTIONS + ["after a kill only the disk survives, so recovery is a function of the disk digest (paths, types, content hashes; audit files classified empty/partial/complete)", "kill = process kill, no power loss"],
            "distinct_nontrivial_fn": lambda rs: sum((r.get("distinct_crash_states") or 0) for r in rs)}


def powerset(xs):
    for n in range(len(xs) + 1):
        for c in itertools.combinations(xs, n):
            yield list(c)


@register("C02")
def plan_c02(tier, seed):
    o = ["nohang", "clean", "c02", "c04"]
    def stage1(ctx, prev):
        jobs = []
        combos = [("g2", 2, 2, "cmd"), ("g3", 1, 1, "cmd"), ("g3", 2, 1, "func"), ("g7", 1, 2, "cmd"), ("g8", 1, 1, "cmd"), ("g6b", 2, 1, "func"), ("g3", 1, 1, "cmd", "absout"), ("g2", 1, 1, "cmd", "subdir"), ("g7b", 1, 2, "cmd"), ("g8d", 1, 1, "cmd"), ("g3", 1, 1, "cmd", "setout-only"), ("g3", 1, 1, "cmd", "dirout"), ("g14f", 1, 1, "cmd", "defaultout-e"), ("g14a", 1, 1, "func")]
        if tier != "quick":
            combos += [("g3", 2, 2, "cmd"), ("g6", 1, 2, "cmd"), ("g7", 2, 2, "func"), ("g4", 1, 2, "cmd"), ("g8", 2, 2, "func")]
        # multi-core tasks: a skipped task takes no slot (or gives back all it took)
        combos += [("g2", 2, 2, "cmd", None, [2])] + ([] if tier == "quick" else [("g3", 2, 2, "func", None, [2, 1])])
        for combo in combos:
            g, i, m, kind = combo[:4]
            ex = {"extra": combo[4]} if len(combo) > 4 and combo[4] else {}
            sfx = f"-{combo[4]}" if len(combo) > 4 and combo[4] else ""
            if len(combo) > 5:
                ex["cores"] = combo[5]
                sfx += "-c" + "".join(map(str, combo[5]))
            jobs.append(wf("C02", g, i, 1, m, kind, mode="single", oracles=["clean"], tier=tier, events_dep=False, id=f"C02-list-{g}-i{i}-m{m}-{kind}" + sfx, _list=True, args={"list_outputs": "1"}, **ex))
        # histories left by a KILLED run: every distinct crash state of two small scenarios (an output may be at its
        # final path while the temp directory of its task still exists), re-run in place and after cleanup
        for g, i in (("g2", 1), ("g3", 1)):
            cj = wf("C02", g, i, 1, 1, "cmd", mode="dpor", oracles=["nohang", "clean"], tier=tier, events_dep=False, crash=True, disk_dep=True, id=f"C02-crash-{g}-i{i}-m1-cmd")
            cj["_snap"] = True
            cj["snap_dir"] = os.path.join(ctx["scratch"], "snaps", cj["id"])
            jobs.append(cj)
        return jobs
    def stage2(ctx, prev):
        jobs = []
        for r in prev:
            j = r["job"]
            if not j.get("_list"):
                continue
            units = (r.get("extra_info") or {}).get("task_outputs") or []
            # g14f: the name of e's output is a function of the tags in d's audit record - a hand-made history (stub
            # records without tags) is not a history of this workflow; only the real one (full run, run again) is used
            for idx, sub in enumerate(powerset(list(range(len(units)))) if j["scen"]["graph"] != "g14f" else []):
                if not sub:
                    continue
                if tier == "quick" and len(units) > 3 and len(sub) not in (1, len(units)) and idx % 2:
                    continue
                for content in ("ref", "user", "empty"):
                    for audit in (True, False):
                        if tier == "quick" and content in ("user", "empty") and not audit:
                            continue
                        if content == "empty" and len(sub) > 1 and tier == "quick":
                            continue   # a legitimately EMPTY existing output (a filter without hits): singletons in quick
                        pre = {}
                        for u in sub:
                            for path, c in units[u].items():
                                pre[path] = c if content == "ref" else ("" if content == "empty" else "user-content-of-" + path)
                        nj = copy.deepcopy(j)
                        for k in ("base", "_list", "args"):
                            nj.pop(k, None)
                        nj["id"] = j["id"].replace("-list-", "-pre-") + f"-s{''.join(map(str, sub))}-{content}-{'a' if audit else 'n'}"
                        nj["pre"] = pre
                        nj["pre_audit"] = audit
                        nj["mode"] = "dpor"
                        nj["oracles"] = o
                        nj["budget"] = budget(tier, 12, 300)
                        nj["_fallback_delay"] = 1 if tier == "quick" else 2
                        jobs.append(nj)
            # history: complete run, run again in place
            nj = copy.deepcopy(j)
            for k in ("base", "_list", "args"):
                nj.pop(k, None)
            nj["id"] = j["id"].replace("-list-", "-full-")
            nj["save_final"] = os.path.join(ctx["scratch"], "final", nj["id"])
            nj["_rerun"] = True
            jobs.append(nj)
        return jobs
    def stage3(ctx, prev):
        jobs = []
        for r in prev:
            j = r["job"]
            if not j.get("_rerun") or j.get("_consumed"):
                continue
            j["_consumed"] = True
            nj = copy.deepcopy(j)
            for k in ("base", "_rerun", "_consumed", "save_final"):
                nj.pop(k, None)
            nj["id"] = j["id"].replace("-full-", "-rerun-")
            nj["seed_dir"] = j["save_final"]
            nj["mode"] = "dpor"
            nj["oracles"] = ["nohang", "clean", "c02", "c02-norun"]
            nj["_fallback_delay"] = 2
            jobs.append(nj)
        return jobs
    mo = maporder_stage("C02", o, tier, graphs=("g7", "g7b", "g8d"), per_job=True)
    def stage4(ctx, prev):
        # the skip decision walks the task's out-IPs in map order: every other order, for histories of multi-output tasks
        return mo(ctx, [r for r in prev if r["job"].get("pre") and r["job"].get("pre_audit") and "-ref-" in r["job"]["id"]])
    return {"level": "fault_enumeration", "stages": [stage1, stage2, stage3, stage4, recovery_stage("C02", tier, "s", ["nohang", "c02", "c02-seed"], crash=False)],
            "rule": "(+ histories left by a killed run: every distinct crash state of g2 / g3, re-run in place and after cleanup: a declared output found at its final path is not modified and its task not executed) histories: every non-empty subset of the workflow's tasks has its outputs pre-placed on disk (reference bytes / arbitrary user bytes / zero bytes, with / without .audit.json) x every Mazurkiewicz trace of the run; plus 'complete run, run again in place'; oracle: no start event for a task with a pre-existing output, (inode, mtime_ns, size, bytes) of every pre-existing file identical before/after, no mutating FS call ever targets it (online monitor in the FS seam), downstream content = reference function of the pre-existing bytes; non-trivial = distinct (history, terminal outcome) pairs",
            "assumptions": BASE_ASSUMPTIONS + ["multi-output tasks have all or none of their outputs pre-existing, except in graph g7b where the consumed output alone pre-exists (a partial history whose missing output is consumed downstream makes the consumer fail: C09's concern)", "range-over-map orders: every other order of each site is forced for the g7/g7b histories (delay bound 0/1)"],
            "distinct_nontrivial_fn": lambda rs: sum((r.get("distinct_outcomes") or 0) for r in rs if r["job"].get("pre") or r["job"].get("seed_dir"))}


# ------------------------------------------------------------------------------------ plan plug-ins
import glob, importlib.util

def _load_plugins():
    for f in sorted(glob.glob(os.path.join(V, "plans", "*.py"))):
        spec = importlib.util.spec_from_file_location("plan_" + os.path.basename(f)[:-3], f)
        m = importlib.util.module_from_spec(spec)
        spec.loader.exec_module(m)
        m.setup(sys.modules[__name__])

_load_plugins()
